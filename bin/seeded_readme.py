#!/usr/bin/env python3
# Regenerates seeded/README.md from the meta.json files.
import json, glob, os
root = os.path.join(os.path.dirname(os.path.abspath(__file__)), "..", "seeded")
metas = [json.load(open(p)) for p in sorted(glob.glob(os.path.join(root, "*", "meta.json")))]
missed = [m["id"] for m in metas if m["caught_by"].lower().startswith("not caught")]
out = ["# Seeded property-breaking changes", "",
"Each directory holds one change produced by a fresh sub-agent that saw only the property text and a scratch worktree",
"(`patch.diff`), its demonstration (`demo_test.go`, passes on the clean tree and fails with the change; `README.md` is the",
"agent's own description) and `meta.json` (what it needs to manifest, how it was confirmed, which check catches it).",
"They are never committed to /repo: `bin/mutrun seeded/<id>/patch.diff 60 <check ids>` applies one, runs the checks and reverts;",
"`bin/mutall` does that for all of them.", "",
"%d changes; not caught: %s" % (len(metas), ", ".join(missed) or "none"), "",
"| id | property | needs | caught by |", "|---|---|---|---|"]
for m in metas:
    out.append("| %s | %s | %s | %s |" % (m["id"], m["breaks_property"], m["needs_to_manifest"].replace("|", "/"), m["caught_by"].replace("|", "/")))
open(os.path.join(root, "README.md"), "w").write("\n".join(out) + "\n")
print(len(metas), "changes;", "not caught:", missed)
