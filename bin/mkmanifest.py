#!/usr/bin/env python3
"""Writes /verif/MANIFEST.json from the table below and validates it against the schema."""
import json, sys
ALL = ["C%02d" % i for i in range(1, 21)]
# id -> (level, technique, level text, level note, design ref)
CLAIMED = {
 "C02": ("exploration", "deterministic simulation: seeded multi-replica ledger runs, adversarial mempool, honest proposal must validate+insert on every same-head replica",
         "Seeded exploration of simulated multi-replica ledger histories with the real ProposeBlock/ValidateBlock/AddBlock on every replica; a clean batch is evidence, not proof.",
         "Engine loop, libp2p and kubo are stubbed; epoch outcomes are scripted through the real applyOnState; state space sampled, not enumerated.", "3 C02"),
}
NOT_YET = "not claimed yet: the check for this property is still being built in this session (see DESIGN.md section 3)"
def main():
    checks = []
    for pid in ALL:
        if pid not in CLAIMED: continue
        level, tech, text, note, ref = CLAIMED[pid]
        checks.append({
            "property_id": pid,
            "quick_cmd": "bin/check %s quick" % pid,
            "thorough_cmd": "bin/check %s thorough" % pid,
            "evidence_file": "/verif/evidence/%s.json" % pid,
            "replay_cmd_template": "bin/check %s quick --replay {path}" % pid,
            "engine": "simchain",
            "level_claimed": {"category": level, "text": text, "design_ref": "DESIGN.md " + ref},
            "level_note": note,
            "technique": tech,
        })
    m = {
        "version": 1,
        "setup_cmd": "bin/setup",
        "hooks": {
            "guard": "none in source: every seam is installed with `go build -overlay` generated at check time by /verif/simgen from /repo's current tree; without that flag the tree is byte-for-byte the shipped one",
            "enable": "bin/check runs simgen (go/ast rewrite of time/go/sync/rand uses into the overlay-only package verifseam, ipfs stub, export shims, GOROOT runtime map-order overlay) and builds sim/cmd/vcheck with -overlay",
            "baseline_off_cmd": "cd /repo && go test -json -vet=off -count=1 -timeout 25m ./...",
            "source_commits": [],
            "add_only": True,
        },
        "engines": [
            {"name": "simchain", "path": "/verif/sim", "serves_properties": sorted(CLAIMED), "kind_free_text": "deterministic simulator: choice tape from VERIF_SEED, baton scheduler over real goroutines, virtual clock, simulated disk/content store/transport, real idena-go node core built through an overlay"},
        ],
        "checks": checks,
        "notes": "Exit codes of every command: 0 held, 1 violation (VIOLATION line with replay file), 2 harness/build/determinism trouble. Known findings: /verif/known_findings.json.",
        "not_applicable": [{"property_id": p, "reason": NOT_YET} for p in ALL if p not in CLAIMED],
    }
    json.dump(m, open("/verif/MANIFEST.json", "w"), indent=1)
    try:
        import jsonschema
        jsonschema.validate(m, json.load(open("/root/.vp/MANIFEST.schema.json")))
        print("MANIFEST.json valid; claimed:", sorted(CLAIMED))
    except ImportError:
        print("jsonschema not available; written without validation")
if __name__ == "__main__":
    main()
