#!/usr/bin/env python3
"""Writes /verif/MANIFEST.json from the table below and validates it against the schema."""
import json, sys
ALL = ["C%02d" % i for i in range(1, 21)]
# id -> (level, technique, level text, level note, design ref)
LEDGER_NOTE = "Engine loop, libp2p and kubo are stubbed; epoch outcomes are scripted (drawn scores fed through the real determineNewIdentityState/applyOnState); histories are sampled from a seeded tape, not enumerated."
CLAIMED = {
 "C01": ("exploration", "deterministic simulation: replicas differing only in map seed/zone/clock skew/restart/rollback history apply the same blocks; byte comparison of roots, next-block parameters, stored diffs; plus the fork situation with an honest peer (blocks validated speculatively on the common ancestor by a node whose head is elsewhere must get the verdict they got at their builders' head)",
         "Seeded exploration: every block of every run is recomputed by 2-4 replicas whose node-local conditions are owned by the simulator (Go map order through a runtime seam, time.Local, skewed virtual clock, restart and rollback histories).", LEDGER_NOTE, "3 C01"),
 "C02": ("exploration", "deterministic simulation: seeded multi-replica ledger runs, adversarial mempool, honest proposal must validate+insert on every same-head replica",
         "Seeded exploration of simulated multi-replica ledger histories with the real ProposeBlock/ValidateBlock/AddBlock on every replica; a clean batch is evidence, not proof.", LEDGER_NOTE, "3 C02"),
 "C03": ("exploration", "deterministic simulation with a Byzantine peer: 29 tamper operators on every valid block of seeded ledger runs (with contract transactions, so that receipts exist), plus whole blocks built by replicas that are not eligible to propose with their own key; delivered through real decode+AddBlock; before/after digests incl. simulated-disk unit counter",
         "Seeded exploration: tens of thousands of tampered copies per minute, each of a block that is valid in its context; rejection and side-effect freedom are both checked, and the honest original must still insert.", LEDGER_NOTE, "3 C03"),
 "C04": ("exploration", "deterministic simulation: full ledger scan after every committed block + per-transaction re-application on a private state, bound from configuration",
         "Seeded exploration of ledger histories incl. epoch transitions with drawn outcomes; conservation is checked as an invariant after every block, not only at the end.", LEDGER_NOTE, "3 C04"),
 "C05": ("exploration", "deterministic simulation: per-transaction per-address (balance, stake) deltas against pre-state relationships",
         "Seeded exploration; each transaction of each accepted block is applied alone with the real applyTxOnState and its effect on every known address is compared with the signer and the named exceptions.", LEDGER_NOTE, "3 C05"),
 "C06": ("exploration", "deterministic simulation: replayer client, Byzantine block with replayed tx, proposer with a hostile candidate list (already included, future-epoch, past-epoch, used-nonce and gapped transactions offered to the node's own block builder, derived from the current ProposeBlock source), rollbacks; history check of the canonical chain of every replica",
         "Seeded exploration across 1-3 epochs; the canonical chain read back from each replica's store is checked for duplicate hashes, nonce sequence per (sender, epoch) and epoch match.", LEDGER_NOTE, "3 C06"),
 "C07": ("exploration", "deterministic simulation: tape-drawn validator sets on replicas with different map seeds (incremental vs loaded view), real Engine.vote/countVotes on the virtual clock over a lossy/duplicating transport with a Byzantine voter; real ValidateBlockCert vs an independent reference predicate",
         "Seeded exploration of validator sets, rounds/steps and vote multisets; thousands of rounds per minute.", "Committee membership is taken from the implementation's draw (checked by cross-replica equality); the engine loop and gossip are stubbed; validator sets are installed directly in the identity state.", "3 C07"),
 "C08": ("exploration", "deterministic simulation: partition/heal with two certified branches, Byzantine rewriting of certificates and bundles on the wire, real fork resolver; adoption judged by reference certificate predicate and post-adoption equality with the peer",
         "Seeded exploration of partitions; the converse (every valid heavier fork is adopted) is deliberately not demanded.", LEDGER_NOTE + " Downloader.SeekForkedBlocks is replaced by the harness moving BlocksRange bytes and fetching bodies.", "3 C08"),
 "C09": ("fault_enumeration", "deterministic simulation with crash injection: every storage unit of recorded operations (block insertion, reset + re-application, whole fast sync incl. header intake, from a fresh node or from the head an earlier fast sync left) is a crash point; restart + catch-up vs uncrashed twin; for fast-sync crash points also: resume the fast sync, finish, restart again",
         "For each recorded operation the crash points are enumerated completely (every atomic storage unit); which scenarios and operations are recorded is seeded sampling. Second-order crashes are sampled.",
         "The store is modelled as prefix-durable over atomic units (put/delete/batch); LevelDB itself is not exercised. " + LEDGER_NOTE, "3 C09"),
 "C11": ("exploration", "deterministic simulation: stored-diff replay on every replica and height (with rollbacks); late joiner running the real fastSync steps on wire bytes against a Byzantine provider that corrupts the snapshot archive (positions proportional to its length; some runs over 5000-10000 accounts so that archives have several blocks), diffs and certificates",
         "Seeded exploration: each run ends with a fast sync of a fresh node from a peer of the run; refused imports are checked for emptiness of the target key range, accepted ones for exact root, contents and key lookups, and the joiner must then follow the chain.", LEDGER_NOTE + " The fast-sync batch loop/peer selection and kubo's CID verification are stubbed.", "3 C11"),
 "C13": ("exploration", "deterministic simulation: op-by-op comparison of the real copy-on-write store with a reference map (incl. batches left open or discarded); in-run canonical-state and disk-unit invariance around speculative work and read-only RPC queries (real api.BlockchainApi.EstimateRawTx); historical reads (trees and the view's validator registry) vs commit-time records under restarts/rollbacks",
         "Seeded exploration of operation sequences on the component and of ledger histories for the in-run clauses.", LEDGER_NOTE, "3 C13"),
 "C10": ("exploration", "deterministic simulation: live validator view vs fresh Load() after every block on every replica, plus restart/rollback rebuilds; registry vs ledger scan",
         "Seeded exploration of identity-changing histories; comparison covers every public getter incl. committee draws and ordered pool members.", LEDGER_NOTE, "3 C10"),
 "C14": ("exploration", "deterministic simulation: 5-10 tasks (clients, engine, sync toggler, queries, submitters made runnable exactly when a block is inserted) over one real TxPool + chain under a baton scheduler, a second node of the same operator building some blocks from same-nonce variants; one run in three crosses a validation ceremony and the epoch switch (priority ceremony types, next-epoch transactions, free priority transactions and paid transfers of a quarter to a half of the block gas cap); every cooperative lock acquisition is a tape-decided scheduling point; candidate-list, retention and removal invariants; dead-lock of the tasks is a violation",
         "Seeded search over interleavings at lock granularity with exact replay; the data-race clause of the property is NOT decided by this technique (stated in DESIGN 3 C14 L).", "tx keeper persistence off; push tracker loops of the pool not started; candidate lists are taken by the block-inserting task, as the engine does.", "3 C14"),
 "C15": ("exploration", "deterministic simulation: contract-heavy client (5 embedded contracts x 2 generations, 5 bundled WASM contracts, arbitrary methods/arguments/gas), per-transaction application with one real VM per block; receipt vs effect on all balances, stakes, contract stakes and buffered store writes; burns from the environment's own reports",
         "Seeded exploration of programs/inputs in simulated block contexts; the simulation contributes state and block-context variety and the proposer/validator agreement for these blocks.", LEDGER_NOTE, "3 C15"),
 "C12": ("exploration", "deterministic simulation with a corrupting peer: messages of all 19 kinds taken from the running simulated ledger, damaged at frame / payload / object level (incl. blocks and transactions assembled from decodable parts and re-signed by the legitimate proposer) and delivered through the real protoPeer.ReadMsg -> Decode -> IdenaGossipHandler.handle path, followed by the consensus loop's consumption (GetProposedBlock -> ValidateBlock, pending proposals, flip queue, AddBlock); oracle: no escaping panic, no hang, allocation per message within 64 x frame + 128 MiB, victim keeps following the chain",
         "Structure-aware mutation in context, not coverage-guided fuzzing: 'for every byte string' is sampled; allocation is measured by TotalAlloc growth and only the 'claims gigabytes' class is flagged; a panic recovered by TxPool.add's own gate counts as a reject.", "libp2p stream replaced by an in-memory byte queue; the consensus loop is replaced by the harness calling the same entry points; Flipper.writeLoop body run synchronously.", "3 C12"),
 "C16": ("exploration", "deterministic simulation of whole validation ceremonies (3-10 replicas, each running the real ValidationCeremony, Flipper and KeysPool for its own identity; with small shard size limits the second of two consecutive ceremonies runs in 2-4 shards; simulated users; lossy gossip of flips, keys and packages; restarts; peer re-synchronisation) plus the lottery evaluated as a function over tape-drawn shard layouts under two map seeds; oracle: cross-replica and after-restart equality of the lottery, range / duplicate / quota / non-empty-long-list invariants on what the node hands to its user, assignment <=> key recipient, decryption by exactly the recipients (real packages, real node keys)",
         "The 'for all sizes' part of the property is a pure function of its inputs: it is sampled (0-300 candidates), not proved; the simulator contributes cross-replica agreement under different map seeds, restore after restart, and key delivery under message loss.", "Users, gossip transport and the consensus loop are simulated; identities allocated in genesis have no public key in the state, so key delivery is judged for identities created by invitation + activation.", "3 C16"),
 "C17": ("exploration", "deterministic simulation of whole validation ceremonies (in one shard, or - second ceremony under small shard size limits - in 2-4 shards): replicas differ in map seed, zone, clock skew, arrival of transactions / keys, restarts inside every phase, absence with catch-up from blocks only, first evaluation at proposal vs validation vs insertion (cache hit), competing block at the finishing height validated first, evidence and long-answer transactions with payloads made up by a participant that does not run the reference client; oracle: no panic and no allocation out of proportion while the finishing block is built or validated, every replica accepts the block that finishes the validation (equal roots), equal captured epoch results, and per-identity rules judged from on-chain facts only",
         "Decision-boundary score tuples are sampled through drawn user accuracies, not enumerated; 'missed the session' is taken in its narrowest on-chain sense; validations in which nobody is validated (the protocol's fail-safe keeps every identity) are excluded from the per-identity rules.", "Users are simulated (answers against a hidden truth per flip, through the node's own SubmitShortAnswers / SubmitLongAnswers); gossip and the consensus loop are simulated; three goroutines that block on real channels or tickers are replaced by their bodies run after every block.", "3 C17"),
 "C18": ("exploration", "seeded value generation observed at the codecs (zero / nil optionals, maximal integers, empty and long byte strings for ~50 wire and storage types: encode, decode, re-encode, then every exported leaf field changed in turn must change the encoding and, for the six signed types, the recovered signer) plus seam taps over simulated ledger runs with contracts (blocks, transactions, certificates, receipts, identity diffs as they cross the simulated wire, and every raw value of the state and identity trees on the simulated disk)",
         "The weakest use of the technique in this submission and labelled so: the quantifier is over inputs; the simulator contributes only in-context values. Fields that are not encoded on the pinned tree are listed in c18_baseline.json (one legacy field); whether every behaviour-relevant field is encoded is not decided here.", "Part (b) uses the ledger scenario's stubs.", "3 C18"),
 "C19": ("exploration", "seeded request-shape x transport x life-cycle matrix against the real rpc.Server with a probe service (real goroutines, order-insensitive oracle; no simulated scheduler: the gate cannot depend on schedules)",
         "Low-leverage use of the technique, stated as such: seeded generation of exchanges over in-memory transports plus a deterministic life-cycle probe (request sent to the initial endpoint at the DatabaseInitEvent of node.NewNodeWithInjections).", "In-memory transports (httptest recorder, net.Pipe) instead of sockets for the component part; the life-cycle part uses a real localhost listener and abandons node construction at the content-store stub.", "3 C19"),
 "C20": ("exploration", "deterministic simulation: peers as tasks announcing to the real PushPullManager/holder/tracker, tracker loop + gc as tasks on the virtual clock, go-cache on the virtual clock, responder with drawn latencies; pull-request history rules, bounded liveness after announcements stop, drain of internal sizes",
         "Seeded search over announcement orders, timings and lock-level interleavings with exact replay; data-race clause not decided.", "Peers are simulated responders; the manager's channel-blocked loop is replaced by a pump that runs the same body.", "3 C20"),
}
NOT_YET = "not claimed yet: the check for this property is still being built in this session (see DESIGN.md section 3)"
def main():
    checks = []
    for pid in ALL:
        if pid not in CLAIMED: continue
        level, tech, text, note, ref = CLAIMED[pid]
        checks.append({
            "property_id": pid,
            "quick_cmd": "bin/check %s quick" % pid,
            "thorough_cmd": "bin/check %s thorough" % pid,
            "evidence_file": "/verif/evidence/%s.json" % pid,
            "replay_cmd_template": "bin/check %s quick --replay {path}" % pid,
            "engine": "simchain",
            "level_claimed": {"category": level, "text": text, "design_ref": "DESIGN.md " + ref},
            "level_note": note,
            "technique": tech,
        })
    m = {
        "version": 1,
        "setup_cmd": "bin/setup",
        "hooks": {
            "guard": "none in source: every seam is installed with `go build -overlay` generated at check time by /verif/simgen from /repo's current tree; without that flag the tree is byte-for-byte the shipped one",
            "enable": "bin/check runs simgen (go/ast rewrite of time/go/sync/rand uses into the overlay-only package verifseam, ipfs stub, export shims, GOROOT overlays: runtime map order + goroutine id, crypto/internal/randutil.MaybeReadByte pinned; go-cache on the virtual clock; Blockchain.VerifProposeBlockWithTxs derived from the current ProposeBlock source; the shard size limits of common/sharding.go turned into variables with a generated setter) and builds sim/cmd/vcheck with -overlay (GODEBUG=goindex=0)",
            "baseline_off_cmd": "cd /repo && go test -json -vet=off -count=1 -timeout 25m ./...",
            "source_commits": [],
            "add_only": True,
        },
        "engines": [
            {"name": "simchain", "path": "/verif/sim", "serves_properties": sorted(CLAIMED), "kind_free_text": "deterministic simulator: choice tape from VERIF_SEED, baton scheduler over real goroutines, virtual clock, simulated disk/content store/transport, real idena-go node core built through an overlay"},
        ],
        "checks": checks,
        "notes": "Exit codes of every command: 0 held, 1 violation (VIOLATION line with replay file), 2 harness/build/determinism trouble. Known findings: /verif/known_findings.json.",
        "not_applicable": [{"property_id": p, "reason": NOT_YET} for p in ALL if p not in CLAIMED],
    }
    json.dump(m, open("/verif/MANIFEST.json", "w"), indent=1)
    try:
        import jsonschema
        jsonschema.validate(m, json.load(open("/root/.vp/MANIFEST.schema.json")))
        print("MANIFEST.json valid; claimed:", sorted(CLAIMED))
    except ImportError:
        print("jsonschema not available; written without validation")
if __name__ == "__main__":
    main()
