// simgen generates the build overlay that installs every simulator seam into
// /repo's *current* working tree without changing a file there.
//
//	simgen -repo /repo -out /verif/.build/overlay -tpl /verif/simgen
//
// Output: <out>/overlay.json  (go build -overlay) plus the rewritten copies.
package main

import (
	"bytes"
	"encoding/json"
	"flag"
	"fmt"
	"go/ast"
	"go/parser"
	"go/printer"
	"go/token"
	"os"
	"os/exec"
	"path/filepath"
	"sort"
	"strconv"
	"strings"
)

const seamPath = "github.com/idena-network/idena-go/verifseam"

var timeFuncs = map[string]bool{"Now": true, "Since": true, "Until": true, "Sleep": true, "After": true, "AfterFunc": true, "NewTimer": true, "NewTicker": true, "Tick": true}
var mathRandFuncs = map[string]bool{"Intn": true, "Int31n": true, "Int63n": true, "Int63": true, "Int31": true, "Int": true, "Uint32": true, "Uint64": true, "Float32": true, "Float64": true, "Perm": true, "Shuffle": true, "Read": true, "Seed": true}
var syncTypes = map[string]bool{"Mutex": true, "RWMutex": true, "WaitGroup": true}

// directories of /repo that are not rewritten (not part of any simulated binary)
var skipDirs = map[string]bool{"tests": true, "cmd": true, "docs": true, "resources": true, ".git": true, ".github": true}

func importName(f *ast.File, path string) string {
	for _, im := range f.Imports {
		p, _ := strconv.Unquote(im.Path.Value)
		if p == path {
			if im.Name != nil {
				return im.Name.Name
			}
			return filepath.Base(path)
		}
	}
	return ""
}

type stats struct{ timeCalls, goStmts, locks, crand, mrand int }

func rewrite(fset *token.FileSet, f *ast.File, rel string, st *stats) bool {
	tn := importName(f, "time")
	sn := importName(f, "sync")
	crn := importName(f, "crypto/rand")
	mrn := importName(f, "math/rand")
	uses := false
	pkgIdent := func(e ast.Expr, name string) bool {
		id, ok := e.(*ast.Ident)
		return ok && name != "" && id.Name == name && id.Obj == nil
	}
	ast.Inspect(f, func(n ast.Node) bool {
		switch x := n.(type) {
		case *ast.CallExpr:
			// math/rand top-level calls and crypto/rand.Read
			if sel, ok := x.Fun.(*ast.SelectorExpr); ok {
				if pkgIdent(sel.X, mrn) && mathRandFuncs[sel.Sel.Name] {
					sel.X = &ast.SelectorExpr{X: ast.NewIdent("verifseam"), Sel: ast.NewIdent("MathRand")}
					uses = true
					st.mrand++
				} else if pkgIdent(sel.X, crn) && sel.Sel.Name == "Read" {
					sel.X.(*ast.Ident).Name = "verifseam"
					sel.Sel.Name = "RandRead"
					uses = true
					st.crand++
				}
			}
		case *ast.SelectorExpr:
			if pkgIdent(x.X, tn) && timeFuncs[x.Sel.Name] {
				x.X.(*ast.Ident).Name = "verifseam"
				uses = true
				st.timeCalls++
			} else if pkgIdent(x.X, sn) && syncTypes[x.Sel.Name] {
				x.X.(*ast.Ident).Name = "verifseam"
				uses = true
				st.locks++
			} else if pkgIdent(x.X, crn) && x.Sel.Name == "Reader" {
				x.X.(*ast.Ident).Name = "verifseam"
				x.Sel.Name = "RandReader"
				uses = true
				st.crand++
			}
		}
		return true
	})
	// enclosing function of every go statement (sites are named file:line:enclosingFunc/callee, so that policies can
	// be written against names instead of line numbers)
	goOwner := map[*ast.GoStmt]string{}
	for _, d := range f.Decls {
		if fd, ok := d.(*ast.FuncDecl); ok && fd.Body != nil {
			ast.Inspect(fd.Body, func(n ast.Node) bool {
				if g, ok := n.(*ast.GoStmt); ok {
					goOwner[g] = fd.Name.Name
				}
				return true
			})
		}
	}
	calleeName := func(e ast.Expr) string {
		switch x := e.(type) {
		case *ast.Ident:
			return x.Name
		case *ast.SelectorExpr:
			if id, ok := x.X.(*ast.Ident); ok {
				return id.Name + "." + x.Sel.Name
			}
			return "." + x.Sel.Name
		case *ast.FuncLit:
			return "func"
		}
		return "?"
	}
	replaceGo := func(g *ast.GoStmt) ast.Stmt {
		pos := fset.Position(g.Pos())
		site := fmt.Sprintf("%s:%d:%s/%s", rel, pos.Line, goOwner[g], calleeName(g.Call.Fun))
		uses = true
		st.goStmts++
		// arguments of the go call are evaluated at the go statement in real Go;
		// wrapping in a closure defers evaluation to task start. The repository's
		// go statements pass loop variables only as explicit arguments in a few
		// places; to stay faithful, arguments are bound first.
		call := g.Call
		var pre []ast.Stmt
		var args []ast.Expr
		for i, a := range call.Args {
			switch a.(type) {
			case *ast.BasicLit, *ast.FuncLit:
				args = append(args, a)
				continue
			}
			name := fmt.Sprintf("verifGoArg%d_%d", pos.Line, i)
			pre = append(pre, &ast.AssignStmt{Lhs: []ast.Expr{ast.NewIdent(name)}, Tok: token.DEFINE, Rhs: []ast.Expr{a}})
			args = append(args, ast.NewIdent(name))
		}
		newCall := &ast.CallExpr{Fun: call.Fun, Args: args, Ellipsis: call.Ellipsis}
		goCall := &ast.ExprStmt{X: &ast.CallExpr{
			Fun: &ast.SelectorExpr{X: ast.NewIdent("verifseam"), Sel: ast.NewIdent("Go")},
			Args: []ast.Expr{
				&ast.BasicLit{Kind: token.STRING, Value: strconv.Quote(site)},
				&ast.FuncLit{Type: &ast.FuncType{Params: &ast.FieldList{}}, Body: &ast.BlockStmt{List: []ast.Stmt{&ast.ExprStmt{X: newCall}}}},
			}}}
		if len(pre) == 0 {
			return goCall
		}
		return &ast.BlockStmt{List: append(pre, goCall)}
	}
	fixList := func(list []ast.Stmt) {
		for i, s := range list {
			if g, ok := s.(*ast.GoStmt); ok {
				list[i] = replaceGo(g)
			}
		}
	}
	ast.Inspect(f, func(n ast.Node) bool {
		switch b := n.(type) {
		case *ast.BlockStmt:
			fixList(b.List)
		case *ast.CaseClause:
			fixList(b.Body)
		case *ast.CommClause:
			fixList(b.Body)
		case *ast.LabeledStmt:
			if g, ok := b.Stmt.(*ast.GoStmt); ok {
				b.Stmt = replaceGo(g)
			}
		}
		return true
	})
	if !uses {
		return false
	}
	still := map[string]bool{}
	ast.Inspect(f, func(n ast.Node) bool {
		if sel, ok := n.(*ast.SelectorExpr); ok {
			if id, ok := sel.X.(*ast.Ident); ok && id.Obj == nil {
				still[id.Name] = true
			}
		}
		return true
	})
	added := false
	for _, d := range f.Decls {
		gd, ok := d.(*ast.GenDecl)
		if !ok || gd.Tok != token.IMPORT {
			continue
		}
		var specs []ast.Spec
		for _, s := range gd.Specs {
			im := s.(*ast.ImportSpec)
			p, _ := strconv.Unquote(im.Path.Value)
			name := filepath.Base(p)
			if im.Name != nil {
				name = im.Name.Name
			}
			if (p == "time" || p == "sync" || p == "crypto/rand" || p == "math/rand") && !still[name] && name != "_" && name != "." {
				continue
			}
			specs = append(specs, s)
		}
		if !added {
			specs = append(specs, &ast.ImportSpec{Path: &ast.BasicLit{Kind: token.STRING, Value: strconv.Quote(seamPath)}})
			added = true
			if gd.Lparen == token.NoPos {
				gd.Lparen = gd.Pos()
				gd.Rparen = gd.End()
			}
		}
		gd.Specs = specs
	}
	if !added {
		panic("no import decl in " + rel)
	}
	return true
}

func must(err error) {
	if err != nil {
		fmt.Fprintln(os.Stderr, "simgen:", err)
		os.Exit(2)
	}
}

func replaceN(src, old, new string, n int, what string) string {
	if c := strings.Count(src, old); c != n {
		must(fmt.Errorf("runtime overlay: %s: expected %d occurrences of %q, found %d", what, n, old, c))
	}
	return strings.ReplaceAll(src, old, new)
}

const mapHelpers = `

// ---- added by /verif/simgen (deterministic map randomisation seam) ----

var simMapSeed, simMapSalt uint64

// SimMapSeed installs the seed that decides map hash seeds and iteration
// order; 0 restores the stock (random) behaviour.
func SimMapSeed(s uint64) { simMapSeed = s }

// SimMapSalt sets the salt mixed into the seed of maps created from now on.
func SimMapSalt(s uint64) { simMapSalt = s }

func simmix(a, b uint64) uint64 {
	z := a + 0x9e3779b97f4a7c15*(b+1)
	z = (z ^ (z >> 30)) * 0xbf58476d1ce4e5b9
	z = (z ^ (z >> 27)) * 0x94d049bb133111eb
	return z ^ (z >> 31)
}

func maprand() uint64 {
	if simMapSeed == 0 {
		return rand()
	}
	return simmix(simMapSeed, simMapSalt)
}

// SimGoid identifies the calling goroutine (lets the simulator tell its tasks from finalizers and other
// goroutines it does not schedule).
func SimGoid() int64 { return int64(getg().goid) }

func mapiterrand(h *hmap) uint64 {
	if simMapSeed == 0 {
		return rand()
	}
	return simmix(simmix(simMapSeed, simMapSalt), uint64(h.count)<<16|uint64(h.B)<<8|uint64(h.noverflow&0xff)) ^ (uint64(h.hash0) * 0x9e3779b97f4a7c15)
}
`

// deriveProposeWithTxs appends to blockchain.go a copy of Blockchain.ProposeBlock whose candidate list is a
// parameter instead of the mempool's (the proposer with a hostile mempool): derived from the CURRENT source, so it
// follows whatever ProposeBlock does in the tree under test. If the shape is not recognised a fallback that simply
// calls ProposeBlock is emitted (the harness then loses that operator, nothing else).
var shardKnobs bool

// constsToVars turns top-level single-name const declarations of the given names into var declarations.
func constsToVars(f *ast.File, names ...string) bool {
	want := map[string]bool{}
	for _, n := range names {
		want[n] = true
	}
	found := 0
	for _, d := range f.Decls {
		gd, ok := d.(*ast.GenDecl)
		if !ok || gd.Tok != token.CONST || len(gd.Specs) != 1 {
			continue
		}
		vs, ok := gd.Specs[0].(*ast.ValueSpec)
		if !ok || len(vs.Names) != 1 || !want[vs.Names[0].Name] || len(vs.Values) != 1 {
			continue
		}
		gd.Tok = token.VAR
		found++
	}
	return found == len(names)
}

func deriveProposeWithTxs(fset *token.FileSet, path string, f *ast.File) {
	ok := false
	if f2, err := parser.ParseFile(fset, path, nil, 0); err == nil {
		for _, d := range f2.Decls {
			fd, isFn := d.(*ast.FuncDecl)
			if !isFn || fd.Name.Name != "ProposeBlock" || fd.Recv == nil || fd.Body == nil {
				continue
			}
			replaced := false
			ast.Inspect(fd.Body, func(n ast.Node) bool {
				as, isAs := n.(*ast.AssignStmt)
				if !isAs || len(as.Rhs) != 1 {
					return true
				}
				if call, isCall := as.Rhs[0].(*ast.CallExpr); isCall {
					if sel, isSel := call.Fun.(*ast.SelectorExpr); isSel && sel.Sel.Name == "BuildBlockTransactions" && len(call.Args) == 0 {
						as.Rhs[0] = ast.NewIdent("verifTxs")
						replaced = true
					}
				}
				return true
			})
			if !replaced {
				break
			}
			fd.Name = ast.NewIdent("VerifProposeBlockWithTxs")
			fd.Doc = nil
			fd.Type.Params.List = append(fd.Type.Params.List, &ast.Field{Names: []*ast.Ident{ast.NewIdent("verifTxs")},
				Type: &ast.ArrayType{Elt: &ast.StarExpr{X: &ast.SelectorExpr{X: ast.NewIdent("types"), Sel: ast.NewIdent("Transaction")}}}})
			f.Decls = append(f.Decls, fd)
			ok = true
			break
		}
	}
	if !ok {
		fmt.Println("simgen: ProposeBlock not recognised, emitting the fallback VerifProposeBlockWithTxs")
		src := "package blockchain\nfunc (chain *Blockchain) VerifProposeBlockWithTxs(proof []byte, verifTxs []*types.Transaction) *types.BlockProposal { return chain.ProposeBlock(proof) }\n"
		if f3, err := parser.ParseFile(fset, "verif_fallback.go", src, 0); err == nil {
			f.Decls = append(f.Decls, f3.Decls...)
		}
	}
}

func runtimeOverlay(out string, ov map[string]string) {
	gorootB, err := exec.Command("go", "env", "GOROOT").Output()
	must(err)
	goroot := strings.TrimSpace(string(gorootB))
	rt := filepath.Join(goroot, "src", "runtime")
	dst := filepath.Join(out, "runtime")
	must(os.MkdirAll(dst, 0755))
	read := func(name string) string {
		b, err := os.ReadFile(filepath.Join(rt, name))
		must(err)
		return string(b)
	}
	write := func(name, content string) {
		p := filepath.Join(dst, name+".txt")
		must(os.WriteFile(p, []byte(content), 0644))
		ov[filepath.Join(rt, name)] = p
	}
	m := read("map.go")
	m = replaceN(m, "if uint32(rand())&mask == 0 {", "if uint32(mapiterrand(h))&mask == 0 {", 1, "map.go overflow coin")
	m = replaceN(m, "r := uintptr(rand())", "r := uintptr(mapiterrand(h))", 1, "map.go mapiterinit")
	m = replaceN(m, "r := int(rand())", "r := int(mapiterrand(h))", 2, "map.go keys/values")
	m = replaceN(m, "h.hash0 = uint32(rand())", "h.hash0 = uint32(maprand())", 4, "map.go hash0")
	write("map.go", m+mapHelpers)
	for _, n := range []string{"map_fast32.go", "map_fast64.go", "map_faststr.go"} {
		s := read(n)
		s = replaceN(s, "h.hash0 = uint32(rand())", "h.hash0 = uint32(maprand())", 1, n)
		write(n, s)
	}
	r := read("rand.go")
	r = replaceN(r, "func rand32() uint32 {\n\treturn uint32(rand())\n}", "func rand32() uint32 {\n\treturn uint32(maprand())\n}", 1, "rand.go rand32")
	write("rand.go", r)
	a := read("alg.go")
	a = replaceN(a, "hashkey[i] = uintptr(bootstrapRand())", "hashkey[i] = uintptr(0x243f6a8885a308d3 + uint64(i)*0x9e3779b97f4a7c15)", 1, "alg.go hashkey")
	a = replaceN(a, "key[i] = bootstrapRand()", "key[i] = 0x13198a2e03707344 + uint64(i)*0x9e3779b97f4a7c15", 1, "alg.go aes key")
	write("alg.go", a)
	// crypto/internal/randutil.MaybeReadByte consumes, with probability 1/2, one extra byte of the caller's random
	// stream (since Go 1.20 also in ecdsa.GenerateKey): the repository derives flip keys with
	// ecdsa.GenerateKey(S256(), bytes.NewReader(signature)), which is reproducible on the Go releases the project
	// builds with (< 1.20) and a coin flip on this toolchain. Pinned to "no extra byte".
	ru := filepath.Join(goroot, "src", "crypto", "internal", "randutil", "randutil.go")
	if b, err := os.ReadFile(ru); err == nil && strings.Contains(string(b), "func MaybeReadByte(r io.Reader) {") {
		src := "package randutil\n\nimport \"io\"\n\n// MaybeReadByte: pinned by /verif/simgen to never read (see simgen/main.go).\nfunc MaybeReadByte(r io.Reader) {}\n"
		pth := filepath.Join(dst, "randutil.go.txt")
		must(os.WriteFile(pth, []byte(src), 0644))
		ov[ru] = pth
	}
}

func main() {
	repo := flag.String("repo", "/repo", "repository root")
	out := flag.String("out", "", "output directory")
	tpl := flag.String("tpl", "", "simgen directory (templates/, shims/)")
	flag.Parse()
	if *out == "" || *tpl == "" {
		must(fmt.Errorf("usage: simgen -repo DIR -out DIR -tpl DIR"))
	}
	must(os.RemoveAll(*out))
	must(os.MkdirAll(filepath.Join(*out, "src"), 0755))
	ov := map[string]string{}
	var st stats
	nfiles := 0
	must(filepath.Walk(*repo, func(path string, info os.FileInfo, err error) error {
		if err != nil {
			return err
		}
		rel, _ := filepath.Rel(*repo, path)
		if info.IsDir() {
			top := strings.Split(rel, string(filepath.Separator))[0]
			if skipDirs[top] || strings.HasPrefix(info.Name(), ".") && rel != "." || info.Name() == "testdata" {
				return filepath.SkipDir
			}
			return nil
		}
		if !strings.HasSuffix(path, ".go") || strings.HasSuffix(path, "_test.go") {
			return nil
		}
		if rel == "ipfs/ipfs.go" || rel == "main.go" {
			return nil
		}
		if strings.HasSuffix(path, ".pb.go") {
			return nil
		}
		fset := token.NewFileSet()
		f, err := parser.ParseFile(fset, path, nil, parser.ParseComments)
		if err != nil {
			return err
		}
		if rel == "blockchain/blockchain.go" {
			deriveProposeWithTxs(fset, path, f)
		}
		knobbed := false
		if rel == "common/sharding.go" {
			// tuning knobs: the shard size limits become variables the simulator sets per run (DESIGN 11.7)
			knobbed = constsToVars(f, "MinShardSize", "MaxShardSize")
			shardKnobs = knobbed
		}
		if !rewrite(fset, f, rel, &st) && !knobbed {
			return nil
		}
		var buf bytes.Buffer
		if err := (&printer.Config{Mode: printer.SourcePos | printer.TabIndent, Tabwidth: 8}).Fprint(&buf, fset, f); err != nil {
			return err
		}
		dst := filepath.Join(*out, "src", strings.ReplaceAll(rel, "/", "__")+".txt")
		if err := os.WriteFile(dst, buf.Bytes(), 0644); err != nil {
			return err
		}
		ov[path] = dst
		nfiles++
		return nil
	}))
	// setter for the tuning knobs (a no-op reporting false if the constants were not found in the current source)
	{
		body := "return false"
		if shardKnobs {
			body = "MinShardSize, MaxShardSize = min, max\n\treturn true"
		}
		src := "package common\n\n// Added only through the build overlay (/verif/simgen).\n\n// VerifSetShardSizes sets the shard size limits (defaults 2400 / 5000).\nfunc VerifSetShardSizes(min, max int) bool {\n\t" + body + "\n}\n"
		dst := filepath.Join(*out, "src", "common__zz_verif_knobs.go.txt")
		must(os.WriteFile(dst, []byte(src), 0644))
		ov[filepath.Join(*repo, "common", "zz_verif_knobs.go")] = dst
	}
	// ipfs stub (kubo does not build on the installed toolchains)
	ov[filepath.Join(*repo, "ipfs", "ipfs.go")] = filepath.Join(*tpl, "templates", "ipfs_stub.go.txt")
	// seam package (exists only in the overlay)
	ov[filepath.Join(*repo, "verifseam", "seam.go")] = filepath.Join(*tpl, "templates", "verifseam.go.txt")
	// export shims: shims/<pkg path with __>.go.txt -> /repo/<pkg>/zz_verif_export.go
	shims, _ := filepath.Glob(filepath.Join(*tpl, "shims", "*.go.txt"))
	sort.Strings(shims)
	for _, s := range shims {
		base := strings.TrimSuffix(filepath.Base(s), ".go.txt")
		parts := strings.SplitN(base, "@", 2) // pkg__path@name
		pkg := strings.ReplaceAll(parts[0], "__", "/")
		name := "zz_verif_export.go"
		if len(parts) == 2 {
			name = "zz_verif_" + parts[1] + ".go"
		}
		ov[filepath.Join(*repo, pkg, name)] = s
	}
	// third-party clocks the properties depend on: go-cache (proposal de-dup, push/pull holders) reads time.Now for expiry
	for _, mod := range []string{"github.com/patrickmn/go-cache"} {
		dirB, err := exec.Command("bash", "-c", "cd "+*repo+" && go list -m -f '{{.Dir}}' "+mod).Output()
		must(err)
		dir := strings.TrimSpace(string(dirB))
		files, _ := filepath.Glob(filepath.Join(dir, "*.go"))
		for _, path := range files {
			if strings.HasSuffix(path, "_test.go") {
				continue
			}
			fset := token.NewFileSet()
			f, err := parser.ParseFile(fset, path, nil, parser.ParseComments)
			must(err)
			var st2 stats
			if !rewrite(fset, f, filepath.Base(dir)+"/"+filepath.Base(path), &st2) {
				continue
			}
			var buf bytes.Buffer
			must((&printer.Config{Mode: printer.SourcePos | printer.TabIndent, Tabwidth: 8}).Fprint(&buf, fset, f))
			dst := filepath.Join(*out, "src", "thirdparty__"+strings.ReplaceAll(filepath.Base(dir), "+", "_")+"__"+filepath.Base(path)+".txt")
			must(os.WriteFile(dst, buf.Bytes(), 0644))
			ov[path] = dst
			nfiles++
		}
	}
	runtimeOverlay(*out, ov)
	b, _ := json.MarshalIndent(map[string]interface{}{"Replace": ov}, "", " ")
	must(os.WriteFile(filepath.Join(*out, "overlay.json"), b, 0644))
	fmt.Printf("simgen: %d files rewritten (time=%d go=%d sync=%d crand=%d mrand=%d), %d shims, overlay entries=%d\n",
		nfiles, st.timeCalls, st.goStmts, st.locks, st.crand, st.mrand, len(shims), len(ov))
}
