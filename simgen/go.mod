module verif/simgen

go 1.23
