package checks

import (
	"fmt"
	"math/big"

	"github.com/idena-network/idena-go/blockchain/fee"
	"github.com/idena-network/idena-go/blockchain/types"
	"github.com/idena-network/idena-go/common"
	"github.com/idena-network/idena-go/config"
	"github.com/idena-network/idena-go/stats/collector"

	"verif/sim/oracle"
	"verif/sim/scen"
	"verif/sim/vfw"
)

func init() {
	vfw.Register(&vfw.Check{
		ID:    "C15",
		Level: "exploration",
		Rule: "one case = one simulated ledger run with a contract-heavy client: deployments, calls and terminations of the five embedded contracts (both generations, by consensus version) and of the five bundled WASM contracts (cross-contract calls, sub-deployments) with known and arbitrary method names and argument vectors, drawn amounts, gas allowances from 0 to 3 000 000 and tips; " +
			"every contract transaction of every block is applied alone (after its predecessors) on a private state with the real applyTxOnState + VM and its effect on ALL accounts, identities, contract stakes and buffered contract-store writes is compared with its receipt; the block must also be accepted by the other replicas; " +
			"non-trivial = >= 1 successful and >= 1 failed contract transaction were analysed; distinct by history fingerprint",
		Real:         append(append([]string{}, realLedger...), "vm.VmImpl, vm/env, vm/embedded (5 contracts x 2 generations)", "vm/wasm (cgo binding) with the bundled test contracts"),
		Stub:         stubLedger,
		Assumptions:  []string{"explicit burns are taken from what the contract environments report to the StatsCollector (AddContractBurntCoins, AddContractTerminationBurntCoins)", "an empty identity/account entry created by a reading accessor is not counted as a trace (reading it back equals absence)", "gas limit bought by the maximum fee is recomputed as floor((maxFee - fee(tx)) / feePerGas) with the public fee calculator"},
		QuickSecs:    60,
		ThoroughSecs: 1200,
		MaxChoices:   300000,
		Run:          runC15,
	})
}

type burnRecorder struct {
	collector.StatsCollector
	burnt *big.Int
}

func (b *burnRecorder) AddContractBurntCoins(address common.Address, getAmount collector.GetBalanceFunc, balancesCache *map[common.Address]*big.Int) {
	if balancesCache != nil {
		if v, ok := (*balancesCache)[address]; ok && v != nil {
			b.burnt.Add(b.burnt, v)
			return
		}
	}
	if v := getAmount(address); v != nil {
		b.burnt.Add(b.burnt, v)
	}
}
func (b *burnRecorder) AddContractTerminationBurntCoins(address common.Address, stake, refund *big.Int) {
	if stake != nil {
		b.burnt.Add(b.burnt, stake)
	}
	if refund != nil {
		b.burnt.Sub(b.burnt, refund)
	}
}

func runC15(r *vfw.Run) {
	o := scen.Opts{MinIdent: 2, MaxIdent: 12, Versions: []config.ConsensusVerson{config.ConsensusV12, config.ConsensusV12, config.ConsensusV11, config.ConsensusV10, config.ConsensusV9}}
	lr := newLedgerRun(r, o, 25, 45)
	s := lr.s
	defer s.Close()
	lr.l.Mix.Adversarial = 12
	lr.l.Mix.Contracts = 2
	lr.l.Mix.NoGodChange = true
	lr.l.MaxTxs = 5
	n0 := lr.nodes[0]
	okTx, failTx := 0, 0
	lr.loop("C15", func(rr *scen.RoundResult) bool {
		hasContract := false
		for _, tx := range rr.Block.Body.Transactions {
			if tx.Type == types.DeployContractTx || tx.Type == types.CallContractTx || tx.Type == types.TerminateContractTx {
				hasContract = true
			}
		}
		if !hasContract {
			return true
		}
		pv, st := n0.Do(func() {
			cs, err := n0.App.ForCheck(rr.Prev.Height())
			if err != nil {
				r.Trouble("ForCheck: %v", err)
			}
			feePerGas := cs.State.FeePerGas()
			rec := &burnRecorder{StatsCollector: collector.NewStatsCollector(), burnt: new(big.Int)}
			applier := n0.Chain.VerifNewApplier(cs, rr.Block.Header, rec) // one VM for the whole block, as in block processing
			for i, tx := range rr.Block.Body.Transactions {
				isC := tx.Type == types.DeployContractTx || tx.Type == types.CallContractTx || tx.Type == types.TerminateContractTx
				snd, _ := types.Sender(tx)
				if !isC {
					if _, _, err := applier.Apply(tx); err != nil {
						return
					}
					continue
				}
				before, tBefore := oracle.LiveHoldings(cs)
				storeBefore := cs.State.VerifContractStoreCache()
				nonceBefore := cs.State.GetNonce(snd)
				rec.burnt = new(big.Int)
				plainFee := fee.CalculateFee(n0.App.ValidatorsCache.NetworkSize(), feePerGas, tx)
				var codeBefore *common.Hash
				if tx.To != nil {
					codeBefore = cs.State.GetCodeHash(*tx.To)
				}
				charged, receipt, aerr := applier.Apply(tx)
				if aerr != nil {
					return
				}
				after, tAfter := oracle.LiveHoldings(cs)
				storeAfter := cs.State.VerifContractStoreCache()
				what := fmt.Sprintf("block h=%d tx %d type %d from %x method %q success=%v err=%v gasUsed=%d", rr.Height, i, tx.Type, snd[:6], receipt.Method, receipt.Success, receipt.Error, receipt.GasUsed)
				// gas and fee bounds
				if feePerGas != nil && feePerGas.Sign() > 0 {
					limit := new(big.Int).Div(new(big.Int).Sub(tx.MaxFeeOrZero(), plainFee), feePerGas)
					if limit.Sign() < 0 {
						limit = new(big.Int)
					}
					if new(big.Int).SetUint64(receipt.GasUsed).Cmp(limit) > 0 {
						r.Violate("C15:gas-used-exceeds-gas-bought-by-max-fee", "%s: gas limit bought by max fee %v is %v", what, tx.MaxFeeOrZero(), limit)
					}
					if want := new(big.Int).Mul(feePerGas, new(big.Int).SetUint64(receipt.GasUsed)); receipt.GasCost == nil || receipt.GasCost.Cmp(want) != 0 {
						r.Violate("C15:gas-cost-is-not-rate-times-gas-used", "%s: gas cost %v, fee per gas %v", what, receipt.GasCost, feePerGas)
					}
				}
				if charged.Cmp(tx.MaxFeeOrZero()) > 0 {
					r.Violate("C15:sender-charged-more-than-max-fee", "%s: charged %v, max fee %v", what, charged, tx.MaxFeeOrZero())
				}
				// nobody ends negative
				for a, h := range after {
					if h.Bal.Sign() < 0 || h.Stake.Sign() < 0 {
						r.Violate("C15:negative-amount-after-contract-tx", "%s: %x holds balance %v stake %v", what, a[:6], h.Bal, h.Stake)
					}
				}
				// conservation apart from explicit burns: total falls by exactly fee + tips + reported burns
				loss := new(big.Int).Sub(tBefore, tAfter)
				expected := new(big.Int).Add(charged, tx.TipsOrZero())
				expected.Add(expected, rec.burnt)
				if loss.Cmp(expected) != 0 {
					r.Violate("C15:value-not-conserved", "%s: total of all balances and stakes fell by %v; fee %v + tips %v + burns reported by the contract environment %v = %v", what, loss, charged, tx.TipsOrZero(), rec.burnt, expected)
				}
				if receipt.Success {
					okTx++
					r.Probe("contract_tx_succeeded:" + receipt.Method)
					if tx.Type == types.DeployContractTx && cs.State.GetCodeHash(receipt.ContractAddress) == nil {
						r.Violate("C15:successful-deployment-left-no-contract", "%s: no code hash at %x", what, receipt.ContractAddress[:6])
					}
				} else {
					failTx++
					r.Probe("contract_tx_failed")
					// atomic failure: nothing but the sender's nonce and the fee
					for a, h := range after {
						b, ok := before[a]
						if !ok {
							b = oracle.Holding{Bal: new(big.Int), Stake: new(big.Int)}
						}
						if a == snd {
							want := new(big.Int).Sub(b.Bal, expected)
							if h.Bal.Cmp(want) != 0 || h.Stake.Cmp(b.Stake) != 0 {
								r.Violate("C15:failed-contract-tx-charged-sender-other-than-fee", "%s: sender balance %v -> %v (fee+tips %v), stake %v -> %v", what, b.Bal, h.Bal, expected, b.Stake, h.Stake)
							}
							continue
						}
						if h.Bal.Cmp(b.Bal) != 0 || h.Stake.Cmp(b.Stake) != 0 {
							r.Violate("C15:failed-contract-tx-left-a-trace", "%s: %x balance %v -> %v, stake %v -> %v", what, a[:6], b.Bal, h.Bal, b.Stake, h.Stake)
						}
					}
					for k, v := range storeAfter {
						if storeBefore[k] != v {
							r.Violate("C15:failed-contract-tx-wrote-contract-store", "%s: store key %x now %q", what, k, v)
						}
					}
					if tx.Type == types.DeployContractTx && cs.State.GetCodeHash(receipt.ContractAddress) != nil && codeBefore == nil {
						// (contract address of a deployment is fresh)
						r.Violate("C15:failed-deployment-left-a-contract", "%s: code hash present at %x", what, receipt.ContractAddress[:6])
					}
					if got := cs.State.GetNonce(snd); got != tx.AccountNonce || nonceBefore+1 != tx.AccountNonce && cs.State.GetEpoch(snd) == tx.Epoch && nonceBefore != 0 {
						_ = got
					}
				}
			}
		})
		if pv != nil {
			if vfw.IsAbort(pv) {
				panic(pv)
			}
			r.Violate("C15:contract-analysis-panicked", "%v\n%s", pv, st)
		}
		return true
	}, nil)
	r.Case(r.W.Fingerprint(), okTx > 0 && failTx > 0)
	lr.sample(map[string]interface{}{"contract_txs_succeeded": okTx, "contract_txs_failed": failTx, "contracts_deployed": len(s.Contracts)})
}
