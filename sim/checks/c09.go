package checks

import (
	"crypto/ecdsa"
	"fmt"
	"strings"

	"github.com/idena-network/idena-go/common"
	"github.com/idena-network/idena-go/core/state"

	"github.com/idena-network/idena-go/blockchain/types"
	"github.com/idena-network/idena-go/core/state/snapshot"
	"github.com/idena-network/idena-go/protocol"
	"verif/sim/oracle"

	"verif/sim/scen"
	"verif/sim/seamrt"
	"verif/sim/simdisk"
	"verif/sim/simipfs"
	"verif/sim/simnode"
	"verif/sim/vfw"
)

func init() {
	vfw.Register(&vfw.Check{
		ID:    "C09",
		Level: "fault_enumeration",
		Rule: "a tape-drawn ledger scenario is run once on a victim and an uncrashed twin; 2-4 operations of the victim (block insertion of drawn kinds, reset-to-height + re-application) are recorded as journals of atomic storage units; " +
			"one case = (scenario, operation, k): the disk left by a process death before unit k, for EVERY k of the operation, is restarted with the production start-up sequence and caught up; " +
			"non-trivial = 0 < k < U (the crash falls strictly inside the operation); distinct by (scenario fingerprint, operation, k). Second-order crashes inside the recovery are sampled. A complete fast sync of a late joiner (header intake, snapshot import, switch, clean-up) is one more recorded operation; for a third of its crash points that lie before the switch the restarted node also resumes the fast sync, finishes it and is restarted once more.",
		Real:         append(append([]string{}, realLedger...), "node start-up sequence (InitializeChain, AppState.Initialize with fallback, EnsureIntegrity)", "Blockchain.ResetTo"),
		Stub:         stubLedger,
		Assumptions:  []string{"the store is prefix-durable over atomic units (single put/delete or batch), as LevelDB with its WAL is for a process death; torn batches are not injected", "content-store (IPFS) adds are durable once Add returned (they precede the header writes in insertBlock)"},
		QuickSecs:    60,
		ThoroughSecs: 1500,
		MaxChoices:   300000,
		Run:          runC09,
	})
}

type c09op struct {
	key    *ecdsa.PrivateKey // identity of the node the operation ran on (nil = victim)
	store  *simipfs.Store
	kind   string
	height uint64 // head height after the complete operation
	pre    *simdisk.Disk
	units  []simdisk.Unit
	low    uint64 // lowest legal head after a crash inside the operation
	after  string // digest of the victim after the complete operation
	// manifest: set for the fast-sync operation (lets a restarted node resume it)
	manifest *snapshot.Manifest
}

func nodeDigest(n *simnode.Node, addrs []common.Address) string {
	return fmt.Sprintf("head=%x root=%x idroot=%x vc=%s", n.Chain.Head.Hash().Bytes()[:8], n.App.State.Root().Bytes()[:8], n.App.IdentityState.Root().Bytes()[:8], oracle.ValidatorsDigest(n.App.ValidatorsCache, addrs))
}

// c09FastSync lets a fresh node fast-sync from the twin (real fastSync steps, honest provider) while its disk
// records every storage unit from the first header to the switch to the imported state.
func c09FastSync(r *vfw.Run, s *scen.Scn, twin *simnode.Node, encs map[uint64][]byte, older []*snapshot.Manifest) *c09op {
	var manifest *snapshot.Manifest
	twin.Do(func() { manifest = twin.Chain.ReadSnapshotManifest() })
	if manifest == nil || manifest.Height <= 2 || manifest.Height > twin.Chain.Head.Height() {
		return nil
	}
	jk := scen.NewIdent("joiner", 2)
	J := simnode.New(s.W, 60, jk.Key, s.Cfg, simdisk.New(), s.Net.NewStore(), r.Dir)
	J.Epoch = s.ScriptedEpoch
	if err, pv, _ := J.Start(); err != nil || pv != nil {
		return nil
	}
	defer J.Stop()
	kind, low := "fastsync", uint64(1)
	// sometimes the joiner has fast-synced before, to an older snapshot, and has not moved since: its state sits where an
	// import put it and its head is the height the next import starts from
	if len(older) > 0 && r.ChooseOpt("c09.fastsync.second", 3) >= 1 {
		first := older[r.Choose("c09.fastsync.first", len(older))]
		if first.Height > 2 && first.Height < manifest.Height {
			ferr, pv, _ := c09RunFastSync(twin, J, first)
			if ferr != nil || pv != nil || J.Chain.Head.Height() != first.Height {
				r.Probe("first_fast_sync_of_joiner_not_completed")
				return nil
			}
			kind, low = "fastsync-from-fast-synced-head", first.Height
		}
	}
	op := &c09op{key: jk.Key, store: J.Ipfs, kind: kind, height: manifest.Height, low: low, pre: J.Disk.Clone(), manifest: manifest}
	J.Disk.Record = true
	J.Disk.Journal = nil
	ferr, pv, st := c09RunFastSync(twin, J, manifest)
	J.Disk.Record = false
	if pv != nil {
		if vfw.IsAbort(pv) {
			panic(pv)
		}
		r.Violate("C09:fast-sync-panicked", "%v\n%s", pv, st)
	}
	if ferr != nil {
		r.Probe("fastsync_op_not_completed")
		r.Note("fast sync for the crash operation did not complete: %v", ferr)
		return nil
	}
	op.units = J.Disk.Journal
	J.Disk.Journal = nil
	op.after = "" // compared through the twin's digest at the manifest height
	_ = encs
	return op
}

// c09RunFastSync lets node J fast-sync to the manifest from the twin's headers (resumes from J's stored preliminary head).
func c09RunFastSync(twin, J *simnode.Node, manifest *snapshot.Manifest) (ferr error, pv interface{}, st string) {
	fs := protocol.VerifNewFastSync(J.Chain, J.Ipfs, J.App, manifest, J.SM, J.Bus, J.Addr, J.KeyStore, J.SubMgr, J.Upg)
	pv, st = J.Do(func() {
		from, err := fs.PreConsuming(J.Chain.Head)
		if err != nil {
			ferr = err
			return
		}
		for lo := from; lo <= manifest.Height && ferr == nil; lo += 9 {
			hi := lo + 8
			if hi > manifest.Height {
				hi = manifest.Height
			}
			var wire []protocol.VerifRangeBlock
			twin.W.As(twin.Ctx, func() {
				for h := lo; h <= hi; h++ {
					hd := twin.Chain.GetBlockHeaderByHeight(h)
					wire = append(wire, protocol.VerifRangeBlock{Header: hd, Cert: twin.Chain.GetCertificate(hd.Hash()), IdentityDiff: twin.Chain.GetIdentityDiff(h)})
				}
			})
			enc, _ := protocol.VerifEncodeBlockRange(1, wire)
			_, dec, _, _ := protocol.VerifDecodeBlockRange(enc)
			ferr = fs.Feed(dec)
		}
		if ferr == nil && fs.Deferred() == 0 {
			ferr = fs.PostConsuming()
		} else if ferr == nil {
			ferr = fmt.Errorf("headers end without certificate")
		}
	})
	return
}

func c09GoPolicy(site string) seamrt.GoPolicy {
	switch {
	case strings.HasPrefix(site, "core/state/manager.go"):
		return seamrt.GoTask // snapshot download helper goroutines
	case strings.HasPrefix(site, "blockchain/blockchain.go:") && strings.Contains(site, ":AtomicSwitchToPreliminary/"):
		// (sites are named file:line:enclosingFunc/callee; the file's other go statement - ipfsLoad in InitializeChain -
		// blocks on a channel for ever and must not run inline)
		return seamrt.GoInline // clean-up of the dropped databases after AtomicSwitchToPreliminary: its deletes are storage units too
	}
	return seamrt.GoNever
}

func runC09(r *vfw.Run) {
	r.W.GoPolicy = c09GoPolicy
	o := scen.Opts{MinIdent: 2, MaxIdent: 14, CeremonySoon: true, SmallShards: true}
	if r.Tier == "thorough" {
		o.MaxIdent = 30
	}
	s := scen.New(r, o)
	defer s.Close()
	twin := s.AddNode(0, nil)
	victim := s.AddNode(1%len(s.Ids), nil)
	nodes := []*simnode.Node{twin, victim}
	var addrs []common.Address
	for _, a := range s.AllActors() {
		addrs = append(addrs, a.Addr)
	}
	l := scen.NewLedger(s)
	l.Mix.Adversarial = 8
	l.BringOnline(nodes)
	rounds := 10 + r.Choose("cfg.rounds", 30)
	if r.Tier == "thorough" && r.Choose("cfg.long", 6) == 0 {
		rounds = 104 + r.Choose("cfg.longrounds", 12) // version pruning (MaxSavedStatesCount = 100)
		r.Probe("long_scenario_with_pruning")
	}
	encs := map[uint64][]byte{}
	twinDigest := map[uint64]string{}
	var manifests []*snapshot.Manifest // every snapshot manifest the twin has published, oldest first
	var ops []*c09op
	wantOps := 2 + r.Choose("cfg.nops", 3)
	for i := 0; i < rounds; i++ {
		rr := l.Round(nodes)
		if !l.Usable(rr) {
			break
		}
		encs[rr.Height] = rr.Enc
		cert := l.BuildCert(twin, rr)
		// twin first
		l.InsertAll([]*simnode.Node{twin}, rr, "C09")
		l.WriteCert([]*simnode.Node{twin}, rr, cert)
		if rr.Flags.HasFlag(types.Snapshot) {
			twin.Do(func() { twin.SM.VerifCreateSnapshot(rr.Height) })
		}
		twinDigest[rr.Height] = nodeDigest(twin, addrs)
		twin.Do(func() {
			if m := twin.Chain.ReadSnapshotManifest(); m != nil && (len(manifests) == 0 || manifests[len(manifests)-1].Height != m.Height) {
				manifests = append(manifests, m)
			}
		})
		interesting := rr.Flags != 0 || rr.Txs > 0 || rr.Empty
		record := len(ops) < wantOps && i >= 2 && i < rounds-3 && (interesting && r.Choose("op.pick", 2) == 0 || r.Choose("op.pickplain", 8) == 0)
		if !record {
			l.InsertAll([]*simnode.Node{victim}, rr, "C09")
			continue
		}
		kind := "insert"
		if rr.Empty {
			kind = "insert-empty"
		}
		if rr.Flags != 0 {
			kind = fmt.Sprintf("insert-flags%b", rr.Flags)
		}
		doReset := rr.Height > 4 && r.Choose("op.reset", 3) == 0
		op := &c09op{kind: kind, height: rr.Height, pre: victim.Disk.Clone(), low: rr.Height - 1}
		victim.Disk.Record = true
		victim.Disk.Journal = nil
		l.InsertAll([]*simnode.Node{victim}, rr, "C09")
		if doReset {
			// fork-switch style operation: roll back d blocks and re-apply the same canonical blocks
			d := uint64(1 + r.Choose("op.resetdepth", 3))
			op.kind += fmt.Sprintf("+reset%d", d)
			op.low = rr.Height - d
			var rerr error
			pv, st := victim.Do(func() { _, rerr = victim.Chain.ResetTo(rr.Height - d) })
			if pv != nil {
				r.Violate("C09:reset-panicked", "ResetTo(%d) from %d: %v\n%s", rr.Height-d, rr.Height, pv, st)
			}
			if rerr != nil {
				r.Violate("C09:reset-failed", "ResetTo(%d) from %d: %v", rr.Height-d, rr.Height, rerr)
			}
			for h := rr.Height - d + 1; h <= rr.Height; h++ {
				err, pv, st := s.Insert(victim, encs[h])
				if pv != nil || err != nil {
					r.Violate("C09:reapply-after-reset-failed", "block %d after ResetTo(%d): err=%v panic=%v\n%s", h, rr.Height-d, err, pv, st)
				}
			}
			r.Probe("op:reset")
		}
		victim.Disk.Record = false
		op.units = victim.Disk.Journal
		victim.Disk.Journal = nil
		op.after = nodeDigest(victim, addrs)
		if op.after != twinDigest[rr.Height] {
			r.Violate("C09:victim-differs-from-twin-without-crash", "h=%d victim %s twin %s", rr.Height, op.after, twinDigest[rr.Height])
		}
		ops = append(ops, op)
		r.Probe("op:" + kind)
	}
	l.Agree(nodes, "C09")
	final := twin.Chain.Head.Height()
	finalDigest := twinDigest[final]
	scnFp := r.W.Fingerprint()

	var curOp *c09op
	restart := func(disk *simdisk.Disk, what string) *simnode.Node {
		key, store := victim.Key, victim.Ipfs
		if curOp != nil && curOp.key != nil {
			key, store = curOp.key, curOp.store
		}
		n := simnode.New(s.W, 100, key, s.Cfg, disk, store, r.Dir)
		n.Epoch = s.ScriptedEpoch
		n.Ctx.MapSeed = victim.Ctx.MapSeed + 17
		err, pv, st := n.Start()
		if pv != nil {
			n.Stop()
			r.Violate("C09:restart-panicked", "%s: start-up panicked: %v\n%s", what, pv, st)
		}
		if err != nil {
			n.Stop()
			r.Violate("C09:restart-failed", "%s: start-up failed: %v", what, err)
		}
		return n
	}
	check := func(n *simnode.Node, op *c09op, what string) {
		defer n.Stop()
		h := n.Chain.Head
		if h.Root() != n.App.State.Root() || h.IdentityRoot() != n.App.IdentityState.Root() {
			r.Violate("C09:head-roots-do-not-match-loaded-state", "%s: head h=%d root %x/%x, state %x/%x", what, h.Height(), h.Root().Bytes()[:6], h.IdentityRoot().Bytes()[:6], n.App.State.Root().Bytes()[:6], n.App.IdentityState.Root().Bytes()[:6])
		}
		lowest := op.low
		if lowest+state.MaxSavedStatesCount > op.low { // guard overflow; retained window below the interrupted height
			if op.low > state.MaxSavedStatesCount {
				lowest = op.low - state.MaxSavedStatesCount
			} else {
				lowest = 1
			}
		}
		if h.Height() > op.height || h.Height() < lowest {
			r.Violate("C09:head-outside-retained-window", "%s: head h=%d, interrupted operation ends at %d", what, h.Height(), op.height)
		}
		if h.Height() < op.low {
			r.Probe("restart_rolled_back_below_operation")
		}
		if d, ok := twinDigest[h.Height()]; ok {
			if got := nodeDigest(n, addrs); got != d {
				r.Violate("C09:restarted-state-differs-from-twin", "%s: at h=%d restarted %s, twin had %s", what, h.Height(), got, d)
			}
		}
		for k := h.Height() + 1; k <= final; k++ {
			err, pv, st := s.Insert(n, encs[k])
			if pv != nil {
				r.Violate("C09:catchup-panicked", "%s: inserting block %d: %v\n%s", what, k, pv, st)
			}
			if err != nil {
				r.Violate("C09:catchup-rejected", "%s: block %d rejected after restart at %d: %v", what, k, h.Height(), err)
			}
		}
		if got := nodeDigest(n, addrs); got != finalDigest {
			r.Violate("C09:diverged-from-twin-after-catchup", "%s: at h=%d restarted node %s, twin %s", what, final, got, finalDigest)
		}
	}
	// ---- fast sync of a late joiner as one more recorded operation ----
	if len(manifests) > 0 {
		manifests = manifests[:len(manifests)-1] // the older ones
	}
	if op := c09FastSync(r, s, twin, encs, manifests); op != nil {
		ops = append(ops, op)
		r.Probe("op:" + op.kind)
	}
	for oi, op := range ops {
		curOp = op
		U := len(op.units)
		for k := 0; k <= U; k++ {
			disk := op.pre.Clone()
			for _, u := range op.units[:k] {
				disk.ApplyUnit(u)
			}
			what := fmt.Sprintf("op %d (%s, h=%d) crash before unit %d of %d", oi, op.kind, op.height, k, U)
			disk.Record = true
			n := restart(disk, what)
			rec := disk.Journal
			disk.Record = false
			if k == U && op.after != "" {
				if got := nodeDigest(n, addrs); got != op.after {
					n.Stop()
					r.Violate("C09:clean-restart-changed-observable-state", "%s: running node %s, restarted %s", what, op.after, got)
				}
			}
			// a fast sync interrupted by the crash is RESUMED by the restarted node (from its stored preliminary head),
			// finishes, and the node is restarted once more: that start-up, too, must succeed on a consistent chain
			if op.manifest != nil && k < U && r.Choose("c09.resume", 3) == 0 {
				disk3 := op.pre.Clone()
				for _, u := range op.units[:k] {
					disk3.ApplyUnit(u)
				}
				n3 := restart(disk3, what+", resumed")
				preH := int64(-1)
				if n3.Chain.PreliminaryHead != nil {
					preH = int64(n3.Chain.PreliminaryHead.Height())
				}
				_ = preH
				if n3.Chain.Head.Height() >= op.manifest.Height {
					// the switch had already happened: the downloader never starts a fast sync to a manifest that is not
					// ahead of the head (createBlockApplier); the first version of this step did, and reported the mess
					n3.Stop()
					check(n, op, what)
					r.Fault("crash_at_storage_unit")
					r.Case(fmt.Sprintf("%s/%d/%d", scnFp, oi, k), k > 0 && k < U)
					continue
				}
				ferr, pv3, st3 := c09RunFastSync(twin, n3, op.manifest)
				n3.Stop()
				if pv3 != nil {
					if vfw.IsAbort(pv3) {
						panic(pv3)
					}
					r.Violate("C09:resumed-fast-sync-panicked", "%s: %v\n%s", what, pv3, st3)
				}
				if ferr == nil {
					what3 := what + ", fast sync resumed and finished, then restarted again"
					n4 := restart(disk3, what3)
					if n4.Chain.Head.Height() != op.height {
						r.Probe("restart_after_resumed_fast_sync_below_manifest_height")
					}
					check(n4, op, what3)
					r.Fault("crash_resume_fast_sync_restart")
				} else {
					r.Probe("resumed_fast_sync_did_not_complete")
				}
			}
			check(n, op, what)
			r.Fault("crash_at_storage_unit")
			r.Case(fmt.Sprintf("%s/%d/%d", scnFp, oi, k), k > 0 && k < U)
			// second-order: crash inside the recovery performed by the restart (sampled)
			if len(rec) > 0 {
				r.Probe("recovery_wrote_units")
				tries := 2
				if r.Tier == "thorough" {
					tries = 5
				}
				for t := 0; t < tries && t < len(rec); t++ {
					v := r.Choose("crash2.unit", len(rec))
					disk2 := op.pre.Clone()
					for _, u := range op.units[:k] {
						disk2.ApplyUnit(u)
					}
					for _, u := range rec[:v] {
						disk2.ApplyUnit(u)
					}
					what2 := fmt.Sprintf("%s, then crash before unit %d of %d of the recovery", what, v, len(rec))
					n2 := restart(disk2, what2)
					check(n2, op, what2)
					r.Fault("crash_during_recovery")
					r.Case(fmt.Sprintf("%s/%d/%d/r%d", scnFp, oi, k, v), true)
				}
			}
		}
	}
	if len(ops) == 0 {
		r.Probe("run_without_recorded_operation")
	}
	if r.Sample == nil && len(ops) > 0 {
		var kinds []string
		for _, op := range ops {
			kinds = append(kinds, fmt.Sprintf("%s at h=%d: %d units", op.kind, op.height, len(op.units)))
		}
		r.Sample = map[string]interface{}{"identities": len(s.Ids), "rounds": rounds, "operations": kinds, "final_height": final}
	}
}
