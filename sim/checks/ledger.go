package checks

import (
	"bytes"
	"fmt"
	"math/big"
	"sort"

	"github.com/idena-network/idena-go/blockchain/fee"
	"github.com/idena-network/idena-go/blockchain/types"
	"github.com/idena-network/idena-go/common"
	"github.com/idena-network/idena-go/config"
	"github.com/idena-network/idena-go/core/appstate"
	"github.com/idena-network/idena-go/core/state"
	"github.com/idena-network/idena-go/core/validators"

	"verif/sim/oracle"
	"verif/sim/scen"
	"verif/sim/simnode"
	"verif/sim/vfw"
)

// ledgerRun is the skeleton shared by the ledger checks: draw a scenario, start
// replicas, run rounds; each check adds its own oracle after every committed block.
type ledgerRun struct {
	// rejectPred: when set, a rejection of the honest block by a replica is a violation with this predicate
	rejectPred string
	r          *vfw.Run
	s          *scen.Scn
	l          *scen.Ledger
	nodes      []*simnode.Node
	encs       map[uint64][]byte
	addrs      []common.Address
	rounds     int
}

func newLedgerRun(r *vfw.Run, o scen.Opts, minRounds, spanRounds int) *ledgerRun {
	s := scen.New(r, o)
	lr := &ledgerRun{r: r, s: s, encs: map[uint64][]byte{}}
	lr.nodes = startReplicas(r, s)
	lr.l = scen.NewLedger(s)
	if r.Choose("cfg.bringonline", 5) != 0 {
		lr.l.BringOnline(lr.nodes)
	}
	if r.Choose("cfg.seedinviteepool", 3) == 0 {
		lr.l.SeedInviteePool(lr.nodes)
	}
	lr.rounds = minRounds + r.Choose("cfg.rounds", spanRounds+1)
	return lr
}

func (lr *ledgerRun) actors() []common.Address {
	var a []common.Address
	for _, x := range lr.s.AllActors() {
		a = append(a, x.Addr)
	}
	return a
}

// loop runs the rounds; after runs once per committed block (all replicas agree on it).
// strictProp != "" makes block rejection a violation of that property.
func (lr *ledgerRun) loop(strictProp string, before func(rr *scen.RoundResult) bool, after func(rr *scen.RoundResult)) {
	for i := 0; i < lr.rounds; i++ {
		rr := lr.l.Round(lr.nodes)
		if !lr.l.Usable(rr) {
			return
		}
		lr.encs[rr.Height] = rr.Enc
		if before != nil && !before(rr) {
			return
		}
		cert := lr.l.BuildCert(lr.nodes[0], rr)
		if strictProp != "" {
			lr.l.InsertAll(lr.nodes, rr, strictProp)
		} else if lr.rejectPred != "" {
			lr.l.InsertAll(lr.nodes, rr, lr.rejectPred)
		} else if !lr.l.TryInsertAll(lr.nodes, rr) {
			return
		}
		lr.l.WriteCert(lr.nodes, rr, cert)
		if lr.l.Mix.Contracts > 0 {
			lr.s.NoteContracts(lr.nodes[0], rr.Block)
		}
		lr.r.State(fmt.Sprintf("%d/%x/%x", rr.Height, lr.nodes[0].App.State.Root().Bytes()[:6], lr.nodes[0].App.IdentityState.Root().Bytes()[:4]))
		if rr.Flags != 0 {
			lr.r.Probe(fmt.Sprintf("blockflags:%b", rr.Flags))
		}
		if rr.Txs > 0 {
			lr.r.Probe("block_with_txs")
		}
		if sn := lr.nodes[0].App.State.ShardsNum(); sn > 1 {
			lr.r.Probe(fmt.Sprintf("block_in_a_network_of_%d_shards", sn))
		}
		if rr.Empty {
			lr.r.Probe("empty_block")
		}
		if after != nil {
			after(rr)
		}
	}
}

func (lr *ledgerRun) sample(extra map[string]interface{}) {
	if lr.r.Sample != nil {
		return
	}
	m := map[string]interface{}{"identities": len(lr.s.Ids), "replicas": len(lr.nodes), "rounds": lr.rounds, "blocks": lr.s.Blocks, "empty_blocks": lr.s.EmptyBlocks,
		"txs_included": lr.s.TxIncluded, "final_epoch": lr.nodes[0].App.State.Epoch(), "consensus_version": lr.s.Cfg.Consensus.Version, "trace_tail": tail(lr.r.W.Trace, 10)}
	for k, v := range extra {
		m[k] = v
	}
	lr.r.Sample = m
}

// ---------------- C01 ----------------

func init() {
	vfw.Register(&vfw.Check{
		ID:    "C01",
		Level: "exploration",
		Rule: "one case = one simulated ledger run in which 2-4 replicas that differ only in node-local conditions (map seed - one replica re-seeded before every block, host time zone, clock skew, mempool content, clean restarts, roll-back-and-re-apply histories) apply the same blocks; " +
			"non-trivial = at least one block with transactions or flags was applied on >= 2 replicas with different map seeds and zones; distinct by history fingerprint. Some runs use networks of 300+ identities with the protocol's own epoch length. " +
			"Two runs in five are the fork situation instead: the network splits, both sides build certified blocks, and a node of one side validates the other side's honest branch through the real fork resolver on top of the common ancestor while its own head is elsewhere (non-trivial = the resolver's block validation ran); every block must get the verdict and the result it got at its builders' head.",
		Real:         append(append([]string{}, realLedger...), "Blockchain.ResetTo (roll-back histories)", "node start-up sequence (restart histories)", "consensus.ForkResolver.processBlocks / ApplyFork, Blockchain.ValidateSubChain (fork-context histories)"),
		Stub:         stubLedger,
		Assumptions:  []string{"divergence is observed as (a) rejection of an honest block by a peer that accepts everything else, (b) difference in committed roots, next-block parameters, stored identity diff or receipts between replicas at the same height", "2^-190-class float-order effects in prepareBlockRewardCtx are out of reach of sampling (DESIGN 3 C01 L)"},
		QuickSecs:    75,
		ThoroughSecs: 1500,
		MaxChoices:   400000,
		Run:          runC01,
	})
}

func c01Observables(n *simnode.Node, h uint64) string {
	var diff []byte
	if d := n.Chain.GetIdentityDiff(h); d != nil {
		diff, _ = d.ToBytes()
	}
	hd := n.Chain.Head
	rc := ""
	if hd.ProposedHeader != nil {
		rc = fmt.Sprintf("%x", hd.ProposedHeader.TxReceiptsCid)
	}
	return fmt.Sprintf("head=%x\nroot=%x\nidroot=%x\nreceiptscid=%s\nglobal: %s\niddiff=%x\n", hd.Hash(), n.App.State.Root(), n.App.IdentityState.Root(), rc, oracle.GlobalText(n.App), diff)
}

func runC01(r *vfw.Run) {
	if r.ChooseOpt("c01.forkcontext", 5) >= 3 {
		forkScenario(r, true)
		return
	}
	o := scen.Opts{MinIdent: 1, MaxIdent: 24, Zones: true, Skew: true, CeremonySoon: true, SmallShards: true}
	big := false
	if r.Choose("cfg.bignet", 7) == 6 {
		// large network with the protocol's own epoch length (weekday normalisation etc.)
		o.MinIdent, o.MaxIdent, o.RealEpochDays, o.MostlyValidated = 320, 360, true, true
		if r.Choose("cfg.bignet.v12", 2) == 0 {
			o.Versions = []config.ConsensusVerson{config.ConsensusV12}
		}
		big = true
		r.Probe("big_network_real_epoch_length")
	} else if r.Tier == "thorough" {
		o.MaxIdent = 80
	}
	lr := newLedgerRun(r, o, 25, 45)
	s := lr.s
	defer s.Close()
	if big {
		lr.rounds = 45 + r.Choose("cfg.bigrounds", 20)
		s.PassBias = 2
		lr.l.MaxTxs = 3
	}
	nodes := lr.nodes
	reseed := nodes[len(nodes)-1]
	nontrivial := false
	lr.loop("C01", func(rr *scen.RoundResult) bool {
		// node-local perturbations before the block is applied
		reseed.Ctx.MapSeed = uint64(r.Choose("c01.reseed", 1<<20)) + 1
		if len(nodes) >= 2 && r.Choose("c01.history", 6) == 0 {
			v := nodes[1+r.Choose("c01.which", len(nodes)-1)]
			switch r.Choose("c01.historykind", 2) {
			case 0:
				err, pv, st := s.Restart(v)
				if pv != nil || err != nil {
					r.Violate("C01:restart-failed", "clean restart of node %d at h=%d: err=%v panic=%v\n%s", v.ID, rr.Height-1, err, pv, st)
				}
				r.Fault("clean_restart_before_block")
			case 1:
				h := v.Chain.Head.Height()
				if h > 3 {
					d := uint64(1 + r.Choose("c01.rollback", 3))
					var rerr error
					pv, st := v.Do(func() { _, rerr = v.Chain.ResetTo(h - d) })
					if pv != nil || rerr != nil {
						r.Violate("C01:rollback-failed", "ResetTo(%d) on node %d: err=%v panic=%v\n%s", h-d, v.ID, rerr, pv, st)
					}
					for k := h - d + 1; k <= h; k++ {
						err, pv, st := s.Insert(v, lr.encs[k])
						if pv != nil || err != nil {
							r.Violate("C01:reapplied-block-rejected-after-rollback", "node %d rolled back from %d to %d rejects block %d it had accepted before: err=%v panic=%v\n%s", v.ID, h, h-d, k, err, pv, st)
						}
					}
					r.Fault("rolled_back_and_reapplied")
				}
			}
		}
		// every peer must accept what the proposer accepts
		for _, n := range nodes {
			if n == rr.Proposer {
				continue
			}
			err, pv, st := s.Validate(n, rr.Enc)
			if pv != nil {
				r.Violate("C01:validation-panicked", "node %d h=%d: %v\n%s", n.ID, rr.Height, pv, st)
			}
			if err != nil {
				r.Violate("C01:peer-recomputes-different-result", "node %d (zone %s, skew %s, map seed %d) rejects block h=%d flags=%b that node %d (zone %s) built and accepts: %v; proposer's state (A) vs this node's (B):%s",
					n.ID, n.Ctx.Zone, n.Ctx.Skew, n.Ctx.MapSeed, rr.Height, rr.Flags, rr.Proposer.ID, rr.Proposer.Ctx.Zone, err, scen.DiffStates(rr.Proposer.LastApplied, n.LastApplied))
			}
		}
		return true
	}, func(rr *scen.RoundResult) {
		ref := c01Observables(nodes[0], rr.Height)
		for _, n := range nodes[1:] {
			if got := c01Observables(n, rr.Height); got != ref {
				r.Violate("C01:replicas-differ-after-same-block", "after block h=%d node 0 and node %d differ: %s", rr.Height, n.ID, oracle.FirstTextDiff(ref, got))
			}
		}
		if rr.Txs > 0 || rr.Flags != 0 {
			nontrivial = true
		}
	})
	r.FaultN("replica_with_distinct_map_seed_zone_skew", len(nodes))
	r.Case(r.W.Fingerprint(), nontrivial && len(nodes) >= 2)
	lr.sample(map[string]interface{}{"zones": func() []string {
		var z []string
		for _, n := range nodes {
			z = append(z, fmt.Sprintf("%s skew=%s", n.Ctx.Zone, n.Ctx.Skew))
		}
		return z
	}()})
}

// ---------------- per-transaction analysis (C04, C05) ----------------

type holding struct {
	bal, stake *big.Int
	killed     bool
}

// universe lists every address with an account or identity entry in the committed tree.
func universe(app *appstate.AppState) map[common.Address]bool {
	u := map[common.Address]bool{}
	app.State.IterateAccounts(func(key, value []byte) bool {
		if key != nil {
			u[state.StateDbKeys.AddressKeyToAddress(key)] = true
		}
		return false
	})
	app.State.IterateIdentities(func(key, value []byte) bool {
		if key != nil {
			u[state.StateDbKeys.IdentityKeyToAddress(key)] = true
		}
		return false
	})
	return u
}

// holdings reads balance, stake and contract stake of every address of u through the
// state's getters (amounts as big integers before encoding; nothing is committed).
func holdings(app *appstate.AppState, u map[common.Address]bool) (map[common.Address]holding, *big.Int) {
	m := map[common.Address]holding{}
	total := new(big.Int)
	for a := range u {
		h := holding{new(big.Int), new(big.Int), false}
		if v := app.State.GetBalance(a); v != nil {
			h.bal = new(big.Int).Set(v)
		}
		if v := app.State.GetStakeBalance(a); v != nil {
			h.stake = new(big.Int).Set(v)
		}
		if v := app.State.GetContractStake(a); v != nil {
			h.stake.Add(h.stake, v)
		}
		h.killed = app.State.GetIdentityState(a) == state.Killed
		total.Add(total, h.bal)
		total.Add(total, h.stake)
		m[a] = h
	}
	return m, total
}

type txEffect struct {
	tx           *types.Transaction
	sender       common.Address
	before       map[common.Address]holding
	after        map[common.Address]holding
	tBefore      *big.Int
	tAfter       *big.Int
	receipt      *types.TxReceipt
	err          error
	preInviter   *common.Address // inviter of tx.To before the tx
	preDelegatee *common.Address // delegatee of tx.To before the tx
	preNegative  []string
}

// replayTxs applies the block's transactions one at a time on a private state of node n
// at the parent height (real applyTxOnState) and measures each one's effect through the
// state's getters over every address known to the ledger plus the transaction's parties.
func replayTxs(r *vfw.Run, n *simnode.Node, prev *types.Header, block *types.Block) []*txEffect {
	var out []*txEffect
	pv, st := n.Do(func() {
		cs, err := n.App.ForCheck(prev.Height())
		if err != nil {
			r.Trouble("ForCheck(%d): %v", prev.Height(), err)
		}
		u := universe(cs)
		for _, tx := range block.Body.Transactions {
			snd, _ := types.Sender(tx)
			u[snd] = true
			if tx.To != nil {
				u[*tx.To] = true
			}
		}
		for _, tx := range block.Body.Transactions {
			e := &txEffect{tx: tx}
			e.sender, _ = types.Sender(tx)
			if tx.To != nil {
				if inv := cs.State.GetInviter(*tx.To); inv != nil {
					a := inv.Address
					e.preInviter = &a
				}
				toId := cs.State.GetIdentity(*tx.To)
				if d := toId.Delegatee(); d != nil {
					a := *d
					e.preDelegatee = &a
				}
			}
			e.before, e.tBefore = holdings(cs, u)
			_, e.receipt, e.err = n.Chain.VerifApplyTx(cs, block.Header, tx)
			e.after, e.tAfter = holdings(cs, u)
			for a, h := range e.after {
				if h.bal.Sign() < 0 {
					e.preNegative = append(e.preNegative, fmt.Sprintf("balance of %x = %v", a[:6], h.bal))
				}
				if h.stake.Sign() < 0 {
					e.preNegative = append(e.preNegative, fmt.Sprintf("stake of %x = %v", a[:6], h.stake))
				}
			}
			out = append(out, e)
		}
	})
	if pv != nil {
		if vfw.IsAbort(pv) {
			panic(pv)
		}
		r.Trouble("replayTxs panicked: %v\n%s", pv, st)
	}
	return out
}

func involved(tx *types.Transaction, sender common.Address) []common.Address {
	r := []common.Address{sender}
	if tx.To != nil {
		r = append(r, *tx.To)
	}
	return r
}

// ---------------- C04 ----------------

func init() {
	vfw.Register(&vfw.Check{
		ID:    "C04",
		Level: "exploration",
		Rule: "one case = one simulated ledger run (wide genesis allocations incl. 0, 1 wei, dust, 2^90; all non-contract tx types, kills, delegations, epoch transitions with drawn outcomes); after EVERY committed block the whole committed ledger is scanned; every transaction is re-applied alone on a private state; " +
			"non-trivial = the run committed >= 1 block with transactions; distinct by history fingerprint",
		Real:         realLedger,
		Stub:         stubLedger,
		Assumptions:  []string{"issuance bound per block is computed from the configuration (BlockReward+FinalCommitteeReward; on a validation-finished block additionally that sum times the number of blocks of the epoch), not from rewards.go", "contract transactions are exercised by C15"},
		QuickSecs:    60,
		ThoroughSecs: 1200,
		MaxChoices:   300000,
		Run:          runC04,
	})
}

func runC04(r *vfw.Run) {
	o := scen.Opts{MinIdent: 1, MaxIdent: 20, CeremonySoon: true, SmallShards: true}
	if r.Tier == "thorough" {
		o.MaxIdent = 60
	}
	lr := newLedgerRun(r, o, 25, 50)
	s := lr.s
	defer s.Close()
	lr.l.Mix.Adversarial = 5
	n0 := lr.nodes[0]
	prevTotal := oracle.ScanRaw(n0.App).Sum()
	blockReward := new(big.Int).Add(s.Cfg.Consensus.BlockReward, s.Cfg.Consensus.FinalCommitteeReward)
	nontrivial := false
	var prevEpochBlock uint64
	n0.Do(func() { prevEpochBlock = n0.App.State.EpochBlock() })
	var rec *oracle.RewardRecorder
	lr.loop("", func(rr *scen.RoundResult) bool {
		rec = nil
		if rr.Flags.HasFlag(types.ValidationFinished) {
			// record the per-reward breakdown the reward code reports while this block is inserted on node 0
			rec = oracle.NewRewardRecorder()
			n0.Collector = rec
		} else {
			n0.Collector = nil
		}
		// per-transaction: never increases the total, never leaves a negative amount
		if rr.Txs > 0 {
			for i, e := range replayTxs(r, n0, rr.Prev, rr.Block) {
				if e.err != nil {
					continue
				}
				if len(e.preNegative) > 0 {
					r.Violate("C04:negative-amount-after-tx", "block h=%d tx %d type %d from %x: %v", rr.Height, i, e.tx.Type, e.sender[:6], e.preNegative)
				}
				if e.tAfter.Cmp(e.tBefore) > 0 {
					r.Violate("C04:transaction-increases-total", "block h=%d tx %d type %d from %x: total %v -> %v (+%v)", rr.Height, i, e.tx.Type, e.sender[:6], e.tBefore, e.tAfter, new(big.Int).Sub(e.tAfter, e.tBefore))
				}
				r.Probe(fmt.Sprintf("tx_replayed_type_%d", e.tx.Type))
			}
			nontrivial = true
		}
		return true
	}, func(rr *scen.RoundResult) {
		for _, n := range lr.nodes[:1] {
			t := oracle.ScanRaw(n.App)
			if len(t.Negative) > 0 {
				r.Violate("C04:negative-or-inconsistent-amount-in-ledger", "after block h=%d on node %d: %v", rr.Height, n.ID, t.Negative)
			}
			// pre-encoding amounts of the state the block was applied on
			if la := n.LastApplied; la != nil && !rr.Empty {
				for _, a := range lr.actors() {
					if v := la.State.GetBalance(a); v != nil && v.Sign() < 0 {
						r.Violate("C04:negative-balance-before-encoding", "after block h=%d: balance of %x = %v", rr.Height, a[:6], v)
					}
					if v := la.State.GetStakeBalance(a); v != nil && v.Sign() < 0 {
						r.Violate("C04:negative-stake-before-encoding", "after block h=%d: stake of %x = %v", rr.Height, a[:6], v)
					}
				}
			}
			sum := t.Sum()
			delta := new(big.Int).Sub(sum, prevTotal)
			bound := new(big.Int)
			if !rr.Empty {
				bound.Add(bound, blockReward)
			}
			if rr.Flags.HasFlag(types.ValidationFinished) {
				pool := new(big.Int).Mul(blockReward, new(big.Int).SetUint64(rr.Height-prevEpochBlock))
				bound.Add(bound, pool)
				r.Probe("epoch_block_scanned")
			}
			if delta.Cmp(bound) > 0 {
				pred := "C04:issuance-exceeds-bound"
				excess := new(big.Int).Sub(delta, bound)
				breakdown := ""
				if rec != nil && rec.Total != nil {
					byCat, catExcess := rec.Excess()
					only32 := len(byCat) > 0
					for c, d := range byCat {
						if !oracle.Float32WeightCategories[c] {
							only32 = false
							continue
						}
						// ... and only by what float32 accumulation can lose: each of the n additions into the weight
						// total loses at most 2^-24 of it, so the shares can overshoot the allotted amount by at most about
						// n * 2^-24 of it (taken with a factor 4 of slack); anything larger is another defect
						al := rec.Allotted[c]
						if al == nil || al.Sign() == 0 {
							only32 = false
							continue
						}
						lim := new(big.Int).Mul(al, big.NewInt(int64(4*(rec.Payments[c]+1))))
						lim.Rsh(lim, 24)
						lim.Add(lim, big.NewInt(int64(rec.Payments[c]+1))) // integer truncation of each payment
						if d.Cmp(lim) > 0 {
							only32 = false
						}
					}
					// the excess over the bound is explained by the rounding iff the categories that paid more than they
					// were allotted are all float32-weighted ones and their over-payment covers the whole excess
					if only32 && catExcess.Cmp(excess) >= 0 {
						pred = "C04:issuance-exceeds-bound/epoch-share-divided-by-float32-weight-total"
					}
					breakdown = fmt.Sprintf("; over-paid categories %v (sum %v); breakdown reported by the reward code: %s", byCat, catExcess, rec)
				}
				r.Violate(pred, "block h=%d (empty=%v flags=%b): total grew by %v, bound %v = excess %v (block reward %v, epoch started at block %d)%s", rr.Height, rr.Empty, rr.Flags, delta, bound, excess, blockReward, prevEpochBlock, breakdown)
			}
			if delta.Sign() > 0 {
				r.Probe("block_with_issuance")
			}
			prevTotal = sum
		}
		if rr.Flags.HasFlag(types.ValidationFinished) {
			prevEpochBlock = rr.Height
		}
	})
	r.Case(r.W.Fingerprint(), nontrivial)
	lr.sample(map[string]interface{}{"final_total": prevTotal.String()})
}

// ---------------- C05 ----------------

func init() {
	vfw.Register(&vfw.Check{
		ID:    "C05",
		Level: "exploration",
		Rule: "one case = one simulated ledger run with the client mix biased to identity transactions and malformed targets; every transaction of every accepted block is re-applied alone on a private state and the per-address (balance, stake) deltas are checked against pre-state relationships; " +
			"non-trivial = >= 1 transaction with a recipient other than its signer was analysed; distinct by history fingerprint",
		Real:         realLedger,
		Stub:         stubLedger,
		Assumptions:  []string{"the named exceptions are decided from relationships read from the pre-state (inviter of the target, delegatee of the target), never from the transaction type alone", "contract payouts are exercised by C15"},
		QuickSecs:    60,
		ThoroughSecs: 1200,
		MaxChoices:   300000,
		Run:          runC05,
	})
}

func runC05(r *vfw.Run) {
	o := scen.Opts{MinIdent: 3, MaxIdent: 20, CeremonySoon: false}
	if r.Tier == "thorough" {
		o.MaxIdent = 50
	}
	lr := newLedgerRun(r, o, 25, 45)
	s := lr.s
	defer s.Close()
	lr.l.Mix.Adversarial = 6
	lr.l.Mix.OrphanKills = true
	lr.l.MaxTxs = 8
	n0 := lr.nodes[0]
	nontrivial := false
	drained := r.Choose("c05.drainedactivation", 2) == 0
	lr.loop("", func(rr *scen.RoundResult) bool {
		if drained {
			lr.l.SeedDrainedActivation(lr.nodes) // takes effect from the next round on
		}
		for i, e := range replayTxs(r, n0, rr.Prev, rr.Block) {
			if e.err != nil {
				continue
			}
			if e.tx.To != nil && *e.tx.To != e.sender {
				nontrivial = true
			}
			addrs := map[common.Address]bool{}
			for a := range e.before {
				addrs[a] = true
			}
			for a := range e.after {
				addrs[a] = true
			}
			for a := range addrs {
				if a == e.sender {
					continue
				}
				b, ok := e.before[a]
				if !ok {
					continue
				}
				af, ok2 := e.after[a]
				if !ok2 {
					af = holding{new(big.Int), new(big.Int), false}
				}
				lostBal := af.bal.Cmp(b.bal) < 0
				// a third party turned Killed loses its stake when the block is committed
				lostStake := af.stake.Cmp(b.stake) < 0 || (af.killed && !b.killed && b.stake.Sign() > 0)
				if !lostBal && !lostStake {
					continue
				}
				allowed := ""
				if e.tx.To != nil && a == *e.tx.To {
					switch {
					case e.tx.Type == types.KillInviteeTx && e.preInviter != nil && *e.preInviter == e.sender:
						allowed = "inviter terminates its own invitee"
					case e.tx.Type == types.KillDelegatorTx && e.preDelegatee != nil && *e.preDelegatee == e.sender:
						allowed = "pool terminates its own delegator"
					}
				}
				if allowed != "" {
					r.Probe("exception:" + allowed)
					continue
				}
				r.Violate("C05:third-party-funds-lowered", "block h=%d tx %d type %d signed by %x to %v lowers %x: balance %v -> %v, stake %v -> %v (inviter of target before tx: %v, delegatee of target before tx: %v)",
					rr.Height, i, e.tx.Type, e.sender[:6], e.tx.To, a[:6], b.bal, af.bal, b.stake, af.stake, e.preInviter, e.preDelegatee)
			}
			r.Probe(fmt.Sprintf("tx_analysed_type_%d", e.tx.Type))
		}
		return true
	}, nil)
	r.Case(r.W.Fingerprint(), nontrivial)
	lr.sample(nil)
}

// ---------------- C06 ----------------

func init() {
	vfw.Register(&vfw.Check{
		ID:    "C06",
		Level: "exploration",
		Rule: "one case = one simulated ledger run over 1-3 epochs with a replayer client that re-submits every included transaction later (same or later block, after the epoch change, after a rollback), a Byzantine block that carries an already included transaction, and proposers whose candidate list also offers already included, future-epoch, past-epoch, used-nonce and gapped transactions to the node's own block builder; " +
			"non-trivial = >= 3 replays of included transactions were attempted; distinct by history fingerprint",
		Real:         append(append([]string{}, realLedger...), "Blockchain.ResetTo (rollback and re-inclusion)"),
		Stub:         stubLedger,
		Assumptions:  []string{"the canonical chain is read back block by block from the replica's own store after every round"},
		QuickSecs:    60,
		ThoroughSecs: 1200,
		MaxChoices:   300000,
		Run:          runC06,
	})
}

func runC06(r *vfw.Run) {
	o := scen.Opts{MinIdent: 2, MaxIdent: 16, CeremonySoon: true, SmallShards: true}
	lr := newLedgerRun(r, o, 35, 60)
	s := lr.s
	defer s.Close()
	lr.l.Mix.Adversarial = 5
	n0 := lr.nodes[0]
	type inc struct {
		tx     *types.Transaction
		height uint64
		epoch  uint16
	}
	var included []inc
	replays := 0
	// the proposer with a hostile mempool: its candidate list also offers already included transactions, transactions
	// signed for the next or a past epoch, a second transaction with a used nonce and a nonce gap; the block itself is
	// built by the node's own ProposeBlock code (VerifProposeBlockWithTxs is derived from it at build time)
	lr.l.CandidateHook = func(p *simnode.Node, honest []*types.Transaction) []*types.Transaction {
		if r.Choose("c06.hostilelist", 4) != 0 {
			return nil
		}
		list := append([]*types.Transaction{}, honest...)
		ep := p.App.State.Epoch()
		actors := s.AllActors()
		for k := 1 + r.Choose("c06.hl.n", 3); k > 0; k-- {
			var tx *types.Transaction
			what := r.Choose("c06.hl.what", 5)
			switch {
			case what == 0 && len(included) > 0:
				tx = included[r.Choose("c06.hl.old", len(included))].tx
			default:
				id := actors[r.Choose("c06.hl.sender", len(actors))]
				to := actors[r.Choose("c06.hl.to", len(actors))].Addr
				nonce := uint32(1)
				txep := ep
				if p.App.State.GetEpoch(id.Addr) == ep {
					nonce = p.App.State.GetNonce(id.Addr) + 1
				}
				for _, h := range list {
					if snd, _ := types.Sender(h); snd == id.Addr && h.Epoch == ep && h.AccountNonce >= nonce {
						nonce = h.AccountNonce + 1
					}
				}
				switch what {
				case 1:
					txep, nonce = ep+1, 1 // signed for the next epoch
				case 2:
					if ep > 0 {
						txep = ep - 1
					}
				case 3:
					if nonce > 1 {
						nonce-- // a second transaction with a nonce that is already used
					}
				case 4:
					nonce += uint32(1 + r.Choose("c06.hl.gap", 3))
				}
				t := &types.Transaction{AccountNonce: nonce, Epoch: txep, Type: types.SendTx, To: &to, Amount: big.NewInt(int64(1 + r.Choose("c06.hl.amount", 1000)))}
				t.MaxFee = new(big.Int).Mul(fee.CalculateFee(p.App.ValidatorsCache.NetworkSize(), scen.FeeRate(p), t), big.NewInt(3))
				tx, _ = types.SignTx(t, id.Key)
			}
			if tx != nil {
				pos := r.Choose("c06.hl.pos", len(list)+1)
				list = append(list[:pos], append([]*types.Transaction{tx}, list[pos:]...)...)
			}
		}
		r.Fault("proposer_with_hostile_candidate_list")
		return list
	}
	checkChain := func(n *simnode.Node, upTo uint64) {
		seen := map[common.Hash]uint64{}
		last := map[string]uint32{}
		n.Do(func() {
			for h := uint64(2); h <= upTo; h++ {
				b := n.Chain.GetBlockByHeight(h)
				if b == nil {
					r.Violate("C06:canonical-block-unreadable", "node %d cannot read its canonical block %d", n.ID, h)
				}
				st, err := n.App.Readonly(h - 1)
				var ep uint16
				haveEp := false
				if err == nil {
					ep = st.State.Epoch()
					haveEp = true
				}
				for _, tx := range b.Body.Transactions {
					if prev, dup := seen[tx.Hash()]; dup {
						r.Violate("C06:transaction-applied-twice", "node %d: tx %x appears in block %d and again in block %d", n.ID, tx.Hash().Bytes()[:8], prev, h)
					}
					seen[tx.Hash()] = h
					snd, _ := types.Sender(tx)
					key := fmt.Sprintf("%x/%d", snd, tx.Epoch)
					if tx.AccountNonce != last[key]+1 {
						r.Violate("C06:nonce-not-consecutive", "node %d block %d: sender %x epoch %d nonce %d follows %d", n.ID, h, snd[:6], tx.Epoch, tx.AccountNonce, last[key])
					}
					last[key] = tx.AccountNonce
					if haveEp && tx.Epoch != ep {
						r.Violate("C06:foreign-epoch-transaction-applied", "node %d block %d: tx %x signed for epoch %d applied on epoch %d", n.ID, h, tx.Hash().Bytes()[:8], tx.Epoch, ep)
					}
				}
			}
		})
	}
	lr.loop("", func(rr *scen.RoundResult) bool {
		// Byzantine block: the honest block plus an already included transaction
		if len(included) > 0 && !rr.Empty && r.Choose("c06.byzblock", 4) == 0 {
			old := included[r.Choose("c06.byzwhich", len(included))]
			bz := new(types.Block)
			if err := bz.FromBytes(rr.Enc); err == nil {
				pos := r.Choose("c06.byzpos", len(bz.Body.Transactions)+1)
				txs := append([]*types.Transaction{}, bz.Body.Transactions[:pos]...)
				txs = append(txs, old.tx)
				txs = append(txs, bz.Body.Transactions[pos:]...)
				bz.Body.Transactions = txs
				bz.Header.ProposedHeader.TxHash = types.DeriveSha(types.Transactions(txs))
				c, _ := n0.Ipfs.Cid(bz.Body.ToBytes())
				bz.Header.ProposedHeader.IpfsHash = c.Bytes()
				enc, _ := bz.ToBytes()
				v := lr.nodes[r.Choose("c06.byzvictim", len(lr.nodes))]
				before := v.Chain.Head.Hash()
				err, pv, st := s.Insert(v, enc)
				if pv != nil {
					r.Violate("C06:replayed-tx-block-panicked", "node %d: %v\n%s", v.ID, pv, st)
				}
				if err == nil || v.Chain.Head.Hash() != before {
					r.Violate("C06:block-with-replayed-transaction-accepted", "node %d accepted a block at h=%d carrying tx %x already included at h=%d (epoch %d)", v.ID, rr.Height, old.tx.Hash().Bytes()[:8], old.height, old.epoch)
				}
				r.Fault("byzantine_block_with_replayed_tx")
				replays++
			}
		}
		return true
	}, func(rr *scen.RoundResult) {
		ep := n0.App.State.Epoch()
		for _, tx := range rr.Block.Body.Transactions {
			included = append(included, inc{tx, rr.Height, tx.Epoch})
		}
		// replayer: re-submit earlier transactions to every pool
		k := r.Choose("c06.nreplay", 4)
		for i := 0; i < k && len(included) > 0; i++ {
			old := included[r.Choose("c06.which", len(included))]
			for _, n := range lr.nodes {
				if err := s.Submit(n, old.tx); err == nil {
					r.Probe("replayed_tx_entered_a_pool")
					if old.epoch < ep {
						r.Probe("replay_after_epoch_change_entered_pool")
					}
				}
			}
			r.Fault("replayed_included_tx")
			replays++
			if old.epoch < ep {
				r.Probe("replay_across_epoch_boundary")
			}
		}
		// rollback + re-application: the removed transactions come back through the pool or the block
		if rr.Height > 4 && r.Choose("c06.rollback", 7) == 0 {
			v := lr.nodes[len(lr.nodes)-1]
			d := uint64(1 + r.Choose("c06.depth", 2))
			var rerr error
			v.Do(func() { _, rerr = v.Chain.ResetTo(rr.Height - d) })
			if rerr == nil {
				for h := rr.Height - d + 1; h <= rr.Height; h++ {
					if err, pv, _ := s.Insert(v, lr.encs[h]); err != nil || pv != nil {
						r.Probe("scenario_cut_short:reapply-after-rollback-failed")
						return
					}
				}
				r.Fault("rollback_and_reapply")
			}
		}
		if rr.Height%5 == 0 {
			for _, n := range lr.nodes {
				checkChain(n, rr.Height)
			}
		}
	})
	for _, n := range lr.nodes {
		checkChain(n, n.Chain.Head.Height())
	}
	r.Case(r.W.Fingerprint(), replays >= 3)
	lr.sample(map[string]interface{}{"included_txs": len(included), "replay_attempts": replays})
}

// ---------------- C10 ----------------

func init() {
	vfw.Register(&vfw.Check{
		ID:    "C10",
		Level: "exploration",
		Rule: "one case = one simulated ledger run biased to identity-changing events (epoch outcomes, kills, delegations, online switches, small switch ranges); after EVERY block on EVERY replica the live validator view is compared getter by getter (incl. committee draws for 6 tuples and ordered pool members) with a fresh instance loaded from the same identity state, and the registry with the ledger; replicas are also restarted and rolled back; " +
			"non-trivial = the run committed >= 1 identity-update block; distinct by history fingerprint",
		Real:         append(append([]string{}, realLedger...), "validators.ValidatorsCache (UpdateFromIdentityStateDiff vs Load)"),
		Stub:         stubLedger,
		Assumptions:  []string{"registry-vs-ledger clauses are the three named in the property: validated <=> status in {Newbie, Verified, Human}; delegations match; online => validated or pool"},
		QuickSecs:    60,
		ThoroughSecs: 1200,
		MaxChoices:   300000,
		Run:          runC10,
	})
}

func freshValidatorsText(n *simnode.Node, addrs []common.Address) string {
	vc := validators.NewValidatorsCache(n.App.IdentityState, n.App.State.GodAddress())
	vc.Load()
	return oracle.ValidatorsText(vc, addrs)
}

func runC10(r *vfw.Run) {
	o := scen.Opts{MinIdent: 3, MaxIdent: 22, CeremonySoon: true, SmallShards: true}
	if r.Tier == "thorough" {
		o.MaxIdent = 60
	}
	lr := newLedgerRun(r, o, 30, 50)
	s := lr.s
	defer s.Close()
	lr.l.Mix.Adversarial = 10
	addrs := lr.actors()
	idUpdates := 0
	poolsBefore := map[common.Address]bool{}
	var lastBlock *types.Block
	check := func(n *simnode.Node, when string) {
		var live, fresh string
		var regErr string
		regPred := "C10:registry-disagrees-with-ledger"
		n.Do(func() {
			live = oracle.ValidatorsText(n.App.ValidatorsCache, addrs)
			fresh = freshValidatorsText(n, addrs)
			// registry vs ledger
			v10 := n.Cfg.Consensus.EnableUpgrade10
			seen := map[common.Address]bool{}
			n.App.IdentityState.IterateIdentities(func(key, value []byte) bool {
				if key == nil {
					return true
				}
				var ai state.ApprovedIdentity
				if ai.FromBytes(value) != nil {
					return false
				}
				var a common.Address
				a.SetBytes(key[1:])
				seen[a] = true
				id := n.App.State.GetIdentity(a)
				if ai.Validated != id.State.NewbieOrBetter() && regErr == "" {
					regErr = fmt.Sprintf("registry says validated=%v for %x whose ledger status is %d", ai.Validated, a[:6], id.State)
				}
				if ai.Online && !ai.Validated && !n.App.ValidatorsCache.IsPool(a) && regErr == "" {
					regErr = fmt.Sprintf("%x is online but neither validated nor a pool", a[:6])
					regPred = "C10:registry-disagrees-with-ledger/online-but-neither-validated-nor-pool"
					// which history: a pool (in the view before this block) that terminated its own identity in this block?
					if lastBlock != nil && poolsBefore[a] {
						for _, tx := range lastBlock.Body.Transactions {
							if snd, _ := types.Sender(tx); snd == a && tx.Type == types.KillTx {
								regPred = "C10:registry-disagrees-with-ledger/pool-that-killed-itself-and-lost-its-delegators-switched-online"
								regErr += " (it was a pool before this block, sent KillTx in it and has no delegator left)"
							}
						}
					}
				}
				if v10 && id.State.NewbieOrBetter() && regErr == "" {
					ld := id.Delegatee()
					if (ld == nil) != (ai.Delegatee == nil) || ld != nil && *ld != *ai.Delegatee {
						regErr = fmt.Sprintf("delegatee of validated %x: registry %v, ledger %v", a[:6], ai.Delegatee, ld)
					}
				}
				return false
			})
			n.App.State.IterateOverIdentities(func(a common.Address, id state.Identity) {
				if id.State.NewbieOrBetter() && !seen[a] && regErr == "" {
					regErr = fmt.Sprintf("ledger status of %x is %d but the registry has no entry (not validated)", a[:6], id.State)
				}
			})
		})
		if live != fresh {
			r.Violate("C10:live-view-differs-from-rebuilt-view", "%s on node %d at h=%d: %s", when, n.ID, n.Chain.Head.Height(), oracle.FirstTextDiff(live, fresh))
		}
		if regErr != "" {
			r.Violate(regPred, "%s on node %d at h=%d: %s", when, n.ID, n.Chain.Head.Height(), regErr)
		}
	}
	lr.loop("", func(rr *scen.RoundResult) bool {
		n0 := lr.nodes[0]
		n0.Do(func() {
			for _, a := range addrs {
				poolsBefore[a] = n0.App.ValidatorsCache.IsPool(a)
			}
		})
		lastBlock = rr.Block
		return true
	}, func(rr *scen.RoundResult) {
		if rr.Flags.HasFlag(types.IdentityUpdate) {
			idUpdates++
		}
		for _, n := range lr.nodes {
			check(n, "after block")
		}
		// the three ways a view is rebuilt rather than updated
		if len(lr.nodes) > 1 && r.Choose("c10.rebuild", 8) == 0 {
			v := lr.nodes[1+r.Choose("c10.which", len(lr.nodes)-1)]
			if r.Choose("c10.kind", 2) == 0 {
				if err, pv, _ := s.Restart(v); err != nil || pv != nil {
					r.Probe("scenario_cut_short:restart-failed")
					return
				}
				r.Fault("restart")
				check(v, "after restart")
			} else if rr.Height > 4 {
				d := uint64(1 + r.Choose("c10.depth", 3))
				var rerr error
				v.Do(func() { _, rerr = v.Chain.ResetTo(rr.Height - d) })
				if rerr != nil {
					return
				}
				check(v, fmt.Sprintf("after ResetTo(%d)", rr.Height-d))
				for h := rr.Height - d + 1; h <= rr.Height; h++ {
					if err, pv, _ := s.Insert(v, lr.encs[h]); err != nil || pv != nil {
						r.Probe("scenario_cut_short:reapply-after-rollback-failed")
						return
					}
					check(v, "after re-applied block")
				}
				r.Fault("rollback_and_reapply")
			}
		}
	})
	r.Case(r.W.Fingerprint(), idUpdates > 0)
	lr.sample(map[string]interface{}{"identity_update_blocks": idUpdates})
}

var _ = sort.Strings
var _ = bytes.Equal
