package checks

import (
	"fmt"
	"sort"
	"time"

	"github.com/idena-network/idena-go/blockchain/types"
	"github.com/idena-network/idena-go/common"
	"github.com/idena-network/idena-go/consensus"
	"github.com/idena-network/idena-go/core/state"
	"github.com/idena-network/idena-go/crypto"
	"github.com/idena-network/idena-go/protocol"
	"github.com/idena-network/idena-go/stats/collector"

	"verif/sim/oracle"
	"verif/sim/scen"
	"verif/sim/simnode"
	"verif/sim/vfw"
)

func init() {
	vfw.Register(&vfw.Check{
		ID:    "C07",
		Level: "exploration",
		Rule: "one case = one simulated voting round: a tape-drawn validator set (0..60 online members in quick, ..170 in thorough; pools with several delegators; discriminated members and pools; god-only mode) is installed on 2-3 replicas with different map seeds - on one by incremental update from the identity diff, on the others by a fresh load; committee members vote with the real Engine.vote, votes travel as bytes over a transport with drop/duplicate/delay, a Byzantine voter injects equivocations, forged, foreign, non-committee, other-round/step/parent votes; the real Engine.countVotes polls on the virtual clock; " +
			"every emitted certificate and a family of assembled certificates (subsets, duplicates, outsiders, wrong round/hash/parent) are judged by the real ValidateBlockCert on every replica and by an independent reference predicate; " +
			"non-trivial = the committee has >= 2 members and >= 1 certificate verdict was compared; distinct by history fingerprint",
		Real:         []string{"consensus.Engine.vote / countVotes", "pengings.Votes.AddVote", "blockchain.ValidateBlockCert, GetCommitteeSize, GetCommitteeVotesThreshold", "validators.ValidatorsCache (Load, UpdateFromIdentityStateDiff, GetOnlineValidators, VotesCountSubtrahend)", "types.Vote / BlockCert codecs and signature recovery", "core/state.IdentityStateDB"},
		Stub:         []string{"consensus.Engine.loop (the harness calls vote/countVotes for one step)", "libp2p gossip (votes cross replicas as bytes through the simulated transport)", "validator sets are installed directly in the identity state (not through transactions)"},
		Assumptions:  []string{"committee MEMBERSHIP is taken from the implementation's draw; the check on the draw is cross-replica equality", "a certificate containing a signature that never counts may be rejected as a whole (the property allows it)"},
		QuickSecs:    60,
		ThoroughSecs: 1200,
		MaxChoices:   300000,
		Run:          runC07,
	})
}

type c07node struct {
	n      *simnode.Node
	engine *consensus.Engine
}

func runC07(r *vfw.Run) {
	maxId := 64
	if r.Tier == "thorough" {
		maxId = 175
	}
	o := scen.Opts{MinIdent: 3, MaxIdent: maxId, MostlyValidated: true}
	s := scen.New(r, o)
	defer s.Close()
	nrep := 2 + r.Choose("c07.replicas", 2)
	if nrep > len(s.Ids) {
		nrep = len(s.Ids)
	}
	var cn []*c07node
	for i := 0; i < nrep; i++ {
		n := s.AddNode(i, nil)
		var e *consensus.Engine
		n.Do(func() {
			pm := protocol.VerifNewBareHandler()
			e = consensus.NewEngine(n.Chain, pm, n.Props, n.Cfg, n.App, n.Votes, n.Pool, n.Sec, nil, n.OD, n.Upg, n.Ipfs, n.Bus, collector.NewStatsCollector())
			e.VerifInit()
		})
		cn = append(cn, &c07node{n, e})
	}
	// ---- draw the validator set ----
	t := r.Tape
	var validated []*scen.Ident
	for _, id := range s.Ids {
		if id.Init.NewbieOrBetter() {
			validated = append(validated, id)
		}
	}
	mode := t.Choose("c07.mode", 8) // 0 = nobody online (god-only)
	type member struct {
		id        *scen.Ident
		online    bool
		disc      bool
		delegatee *scen.Ident
	}
	var ms []*member
	var pools []*scen.Ident
	npools := 0
	if len(validated) > 4 {
		npools = t.Choose("c07.npools", 4)
	}
	for i := 0; i < npools; i++ {
		// a pool is either a validated identity or a plain account
		if t.Choose("c07.pooltype", 2) == 0 && len(s.Extra) > i {
			pools = append(pools, s.Extra[i])
		} else {
			pools = append(pools, validated[t.Choose("c07.poolid", len(validated))])
		}
	}
	isPool := map[common.Address]bool{}
	for _, p := range pools {
		isPool[p.Addr] = true
	}
	for _, id := range validated {
		m := &member{id: id}
		if mode != 0 {
			m.online = t.Choose("c07.online", 4) != 0
		}
		m.disc = t.Choose("c07.disc", 5) == 0
		if len(pools) > 0 && !isPool[id.Addr] && t.Choose("c07.delegates", 3) == 0 {
			m.delegatee = pools[t.Choose("c07.whichpool", len(pools))]
			m.online = false
		}
		ms = append(ms, m)
	}
	poolOnline := map[common.Address]bool{}
	poolDisc := map[common.Address]bool{}
	for _, p := range pools {
		poolOnline[p.Addr] = mode != 0 && t.Choose("c07.poolonline", 3) != 0
		poolDisc[p.Addr] = t.Choose("c07.pooldisc", 6) == 0
	}
	// install on every replica: first replica incrementally, the others by a fresh load
	for i, c := range cn {
		c.n.Do(func() {
			is := c.n.App.IdentityState
			for _, m := range ms {
				if m.delegatee != nil {
					is.SetDelegatee(m.id.Addr, m.delegatee.Addr)
				}
				is.SetOnline(m.id.Addr, m.online)
				is.SetDiscriminated(m.id.Addr, m.disc)
			}
			for _, p := range pools {
				is.SetOnline(p.Addr, poolOnline[p.Addr])
				if poolDisc[p.Addr] {
					is.SetDiscriminated(p.Addr, true)
				}
			}
			diff := is.Precommit(true)
			if i == 0 {
				c.n.App.ValidatorsCache.UpdateFromIdentityStateDiff(diff)
			} else {
				c.n.App.ValidatorsCache.Load()
			}
		})
	}
	var addrs []common.Address
	for _, a := range s.AllActors() {
		addrs = append(addrs, a.Addr)
	}
	// (3) same view and committees on every replica
	var ref string
	for i, c := range cn {
		var txt string
		c.n.Do(func() { txt = oracle.ValidatorsText(c.n.App.ValidatorsCache, addrs) })
		if i == 0 {
			ref = txt
		} else if txt != ref {
			r.Violate("C07:committee-or-view-differs-between-replicas", "replica 0 (incremental update) vs replica %d (fresh load): %s", i, oracle.FirstTextDiff(ref, txt))
		}
	}
	// ---- the round ----
	c0 := cn[0]
	head := c0.n.Chain.Head
	round := head.Height() + 1
	step := uint8(1 + t.Choose("c07.step", 4))
	if t.Choose("c07.final", 3) == 0 {
		step = types.Final
	}
	final := step == types.Final
	blockHdr := &types.Header{EmptyBlockHeader: &types.EmptyBlockHeader{ParentHash: head.Hash(), Height: round, Time: head.Time() + 20, BlockSeed: types.Seed{byte(t.Choose("c07.blockseed", 250))}}}
	blockHash := blockHdr.Hash()
	otherHash := (&types.Header{EmptyBlockHeader: &types.EmptyBlockHeader{ParentHash: head.Hash(), Height: round, Time: head.Time() + 21}}).Hash()
	var committee, approvedL []common.Address
	var need, nval, csize int
	var svOK bool
	c0.n.Do(func() {
		vc := c0.n.App.ValidatorsCache
		nval = vc.ValidatorsSize()
		csize = c0.n.Chain.GetCommitteeSize(vc, final)
		sv := vc.GetOnlineValidators(head.Seed(), round, step, csize)
		if sv == nil {
			return
		}
		svOK = true
		for _, x := range sv.Validators.ToSlice() {
			committee = append(committee, x.(common.Address))
		}
		for _, x := range sv.ApprovedValidators.ToSlice() {
			approvedL = append(approvedL, x.(common.Address))
		}
		need = c0.n.Chain.GetCommitteeVotesThreshold(vc, final)
	})
	if !svOK {
		r.Probe("no_committee")
		r.Case(r.W.Fingerprint(), false)
		return
	}
	sort.Slice(committee, func(i, j int) bool { return string(committee[i][:]) < string(committee[j][:]) })
	sort.Slice(approvedL, func(i, j int) bool { return string(approvedL[i][:]) < string(approvedL[j][:]) })
	cc := s.Cfg.Consensus
	refTh := oracle.RefThreshold(nval, final, cc.CommitteePercent, cc.FinalCommitteePercent, cc.AgreementThreshold, cc.MaxCommitteeSize)
	if refTh != need {
		r.Violate("C07:threshold-differs-from-protocol-rule", "validators=%d final=%v: implementation %d, rule %d", nval, final, need, refTh)
	}
	r.Logf("round: validators=%d committee=%d approved=%d need=%d step=%d mode=%d pools=%d", nval, len(committee), len(approvedL), need, step, mode, len(pools))
	keyOf := func(a common.Address) *scen.Ident { return s.IdentOf(a) }
	// votes of committee members produced by the real Engine.vote (one engine impersonates its members in turn)
	type wireVote struct {
		b    []byte
		from common.Address
	}
	var votes []wireVote
	mixedVersions := t.Choose("c07.mixedversions", 3) == 0
	voteFor := func(c *c07node, who *scen.Ident, hash common.Hash, st uint8) {
		c.n.Do(func() {
			c.n.Sec.AddKey(crypto.FromECDSA(who.Key))
			c.engine.VerifInit()
			c.engine.VerifVote(round, st, hash)
			if m := c.n.Votes.GetVotesOfRound(round); m != nil {
				m.Range(func(k, v interface{}) bool {
					vt := v.(*types.Vote)
					if vt.VoterAddr() == who.Addr && vt.Header.Step == st && vt.Header.VotedHash == hash {
						b, _ := vt.ToBytes()
						if mixedVersions && t.Choose("c07.otherversion", 3) == 0 {
							// this member runs another node version: same vote, other upgrade / offline-proposal bits, its own signature
							hd := *vt.Header
							hd.Upgrade = uint32(1 + t.Choose("c07.upgradebits", 14))
							hd.TurnOffline = t.Choose("c07.turnoffline", 2) == 0
							ov := &types.Vote{Header: &hd}
							h := crypto.SignatureHash(ov)
							ov.Signature, _ = crypto.Sign(h[:], who.Key)
							b, _ = ov.ToBytes()
							r.Fault("member_votes_with_other_upgrade_bits")
						}
						votes = append(votes, wireVote{b, who.Addr})
					}
					return true
				})
			}
		})
	}
	voters := 0
	for i, a := range committee {
		id := keyOf(a)
		if id == nil {
			continue
		}
		if t.Choose("c07.abstain", 5) == 0 {
			continue
		}
		voteFor(cn[1+i%(len(cn)-1)], id, blockHash, step)
		voters++
	}
	// restore the replicas' own keys
	for i, c := range cn {
		c.n.Do(func() { c.n.Sec.AddKey(crypto.FromECDSA(s.Ids[i].Key)); c.engine.VerifInit() })
	}
	// Byzantine votes
	signVote := func(who *scen.Ident, rnd uint64, st uint8, parent, hash common.Hash) []byte {
		v := &types.Vote{Header: &types.VoteHeader{Round: rnd, Step: st, ParentHash: parent, VotedHash: hash}}
		h := crypto.SignatureHash(v)
		v.Signature, _ = crypto.Sign(h[:], who.Key)
		b, _ := v.ToBytes()
		return b
	}
	outsider := scen.NewIdent("outsider", 7)
	nbyz := t.Choose("c07.nbyz", 6)
	for i := 0; i < nbyz; i++ {
		var who *scen.Ident
		if len(committee) > 0 {
			who = keyOf(committee[t.Choose("c07.byzwho", len(committee))])
		}
		if who == nil {
			who = outsider
		}
		switch t.Choose("c07.byzkind", 7) {
		case 0:
			votes = append(votes, wireVote{signVote(who, round, step, head.Hash(), otherHash), who.Addr})
			r.Fault("byz:equivocation")
		case 1:
			b := signVote(who, round, step, head.Hash(), blockHash)
			b[len(b)-3] ^= 0x20
			votes = append(votes, wireVote{b, who.Addr})
			r.Fault("byz:forged-signature")
		case 2:
			votes = append(votes, wireVote{signVote(outsider, round, step, head.Hash(), blockHash), outsider.Addr})
			r.Fault("byz:foreign-key")
		case 3:
			// a validated identity that is not in the committee
			for _, m := range ms {
				in := false
				for _, a := range committee {
					if a == m.id.Addr {
						in = true
					}
				}
				if !in {
					votes = append(votes, wireVote{signVote(m.id, round, step, head.Hash(), blockHash), m.id.Addr})
					r.Fault("byz:non-committee-validator")
					break
				}
			}
		case 4:
			votes = append(votes, wireVote{signVote(who, round+1, step, head.Hash(), blockHash), who.Addr})
			r.Fault("byz:other-round")
		case 5:
			votes = append(votes, wireVote{signVote(who, round, step+1, head.Hash(), blockHash), who.Addr})
			r.Fault("byz:other-step")
		case 6:
			votes = append(votes, wireVote{signVote(who, round, step, otherHash, blockHash), who.Addr})
			r.Fault("byz:other-parent")
		}
	}
	// transport: each vote reaches the counting replica after a drawn delay, or never, or twice
	timeout := 20 * time.Second
	for _, v := range votes {
		v := v
		if t.Choose("net.drop", 8) == 7 {
			r.Fault("vote_dropped")
			continue
		}
		copies := 1
		if t.Choose("net.dup", 6) == 5 {
			copies = 2
			r.Fault("vote_duplicated")
		}
		for k := 0; k < copies; k++ {
			d := time.Duration(t.Choose("net.delayms", 8000)) * time.Millisecond
			if t.Choose("net.late", 10) == 9 {
				d += timeout
				r.Fault("vote_delayed_past_timeout")
			}
			s.W.SpawnAfter(d, c0.n.Ctx, "deliver-vote", func() {
				vt := new(types.Vote)
				if vt.FromBytes(v.b) != nil || !vt.IsValid() {
					return
				}
				c0.n.Votes.AddVote(vt)
			})
		}
	}
	// the counting replica runs the real countVotes on the virtual clock
	var cHash common.Hash
	var cCert *types.FullBlockCert
	var cErr error
	pv, st := c0.n.Do(func() { cHash, cCert, cErr = c0.engine.VerifCountVotes(round, step, head.Hash(), need, timeout) })
	if pv != nil {
		if vfw.IsAbort(pv) {
			panic(pv)
		}
		r.Violate("C07:vote-counting-panicked", "%v\n%s", pv, st)
	}
	compared := 0
	judge := func(cert *types.BlockCert, hdr *types.Header, what string) {
		var orig, appr = oracle.EmptySet(), oracle.EmptySet()
		c0.n.Do(func() {
			vc := c0.n.App.ValidatorsCache
			sv := vc.GetOnlineValidators(head.Seed(), hdr.Height(), cert.Step, c0.n.Chain.GetCommitteeSize(vc, cert.Step == types.Final))
			if sv != nil {
				orig, appr = sv.Original, sv.ApprovedValidators
			}
		})
		th := oracle.RefThreshold(nval, cert.Step == types.Final, cc.CommitteePercent, cc.FinalCommitteePercent, cc.AgreementThreshold, cc.MaxCommitteeSize)
		v := oracle.RefCert(head.Hash(), hdr.Hash(), hdr.Height(), cert, orig, appr, th, cc.AgreementThreshold)
		cb, _ := cert.ToBytes()
		for _, c := range cn {
			var verr error
			pv, st := c.n.Do(func() {
				dc := new(types.BlockCert)
				if e := dc.FromBytes(cb); e != nil {
					verr = e
					return
				}
				verr = c.n.Chain.ValidateBlockCert(head, hdr, dc, c.n.App.ValidatorsCache, nil)
			})
			if pv != nil {
				r.Violate("C07:certificate-validation-panicked", "%s: %v\n%s", what, pv, st)
			}
			compared++
			if verr == nil && v.MustReject {
				r.Violate("C07:certificate-without-quorum-accepted", "%s: replica %d accepts a certificate with %d distinct eligible signers (need %d, %d signatures that never count; %s)", what, c.n.ID, v.Distinct, v.Need, v.Outsiders, v.Note)
			}
			if verr != nil && v.MustAccept {
				r.Violate("C07:quorum-certificate-rejected", "%s: replica %d rejects a certificate of %d distinct eligible signers (need %d): %v", what, c.n.ID, v.Distinct, v.Need, verr)
			}
		}
	}
	if cErr == nil && cCert != nil {
		r.Probe("countVotes_emitted_certificate")
		cert := cCert.Compress()
		hdr := blockHdr
		if cHash != blockHash {
			// the counter certified the equivocated hash: legal only with a quorum for it
			hdr = &types.Header{EmptyBlockHeader: &types.EmptyBlockHeader{ParentHash: head.Hash(), Height: round, Time: head.Time() + 21}}
			r.Probe("countVotes_certified_other_hash")
		}
		// (1) what the counter emits is a quorum of genuine eligible votes
		var orig, appr = oracle.EmptySet(), oracle.EmptySet()
		c0.n.Do(func() {
			vc := c0.n.App.ValidatorsCache
			if sv := vc.GetOnlineValidators(head.Seed(), round, step, csize); sv != nil {
				orig, appr = sv.Original, sv.ApprovedValidators
			}
		})
		v := oracle.RefCert(head.Hash(), hdr.Hash(), round, cert, orig, appr, refTh, cc.AgreementThreshold)
		if !v.MustAccept {
			r.Violate("C07:vote-counter-emitted-certificate-without-clean-quorum", "countVotes returned a certificate for %x with %d distinct eligible signers (need %d) and %d signatures that never count (%s)", cHash.Bytes()[:6], v.Distinct, v.Need, v.Outsiders, v.Note)
		}
		judge(cert, hdr, "certificate emitted by countVotes")
	} else {
		r.Probe("countVotes_timed_out")
	}
	// (2) assembled certificates
	var pool []*types.Vote
	for _, wv := range votes {
		vt := new(types.Vote)
		if vt.FromBytes(wv.b) == nil && vt.IsValid() {
			pool = append(pool, vt)
		}
	}
	nass := 3 + t.Choose("c07.nassembled", 6)
	for k := 0; k < nass && len(pool) > 0; k++ {
		full := &types.FullBlockCert{}
		want := t.Choose("c07.asize", len(pool)+2)
		first := pool[t.Choose("c07.afirst", len(pool))]
		full.Votes = append(full.Votes, first)
		for len(full.Votes) < want {
			v := pool[t.Choose("c07.apick", len(pool))]
			// a compressed certificate carries one round/step/hash: only votes that agree with the first on those can be expressed
			full.Votes = append(full.Votes, v)
		}
		cert := full.Compress()
		judge(cert, blockHdr, fmt.Sprintf("assembled certificate #%d of %d signatures (round %d step %d hash %x)", k, len(cert.Signatures), cert.Round, cert.Step, cert.VotedHash.Bytes()[:4]))
	}
	r.Case(r.W.Fingerprint(), len(committee) >= 2 && compared > 0)
	if r.Sample == nil {
		r.Sample = map[string]interface{}{"validators": nval, "committee": len(committee), "approved": len(approvedL), "threshold": need, "step": step, "pools": len(pools), "honest_voters": voters, "byzantine_votes": nbyz, "countVotes_error": fmt.Sprint(cErr), "verdicts_compared": compared}
	}
	_ = state.Verified
}
