package checks

import (
	"fmt"

	"verif/sim/scen"
	"verif/sim/simnode"
	"verif/sim/vfw"
)

var realLedger = []string{"blockchain.Blockchain (ProposeBlock, ValidateBlock, AddBlock, rewards, flags)", "core/appstate, core/state (IAVL trees)", "core/validators", "core/mempool.TxPool", "blockchain/validation", "blockchain/fee", "database.Repo over simdisk", "ceremony.applyOnState / determineNewIdentityState (via scripted epoch)", "blockchain/types codecs (blocks and txs cross replicas as bytes)"}
var stubLedger = []string{"consensus.Engine loop (round driver in the harness)", "libp2p gossip (bytes handed over in-process)", "kubo (simipfs)", "LevelDB (simdisk)", "ValidationCeremony (scripted epoch outcomes)"}

func init() {
	vfw.Register(&vfw.Check{
		ID:    "C02",
		Level: "exploration",
		Rule: "one case = one simulated ledger run (tape-drawn network of 1-40 identities, 2-4 replicas with differing map seeds/zones/skews, adversarial client mix, 20-70 rounds); " +
			"non-trivial = at least one proposed block with >= 1 transaction was validated and inserted on another replica than its proposer; distinct by history fingerprint",
		Real:         realLedger,
		Stub:         stubLedger,
		Assumptions:  []string{"proposals are made with the real Blockchain.ProposeBlock; the engine's own time alignment is stubbed", "clock skew is bounded to +-30 s so that honest timestamps stay inside the validator's window"},
		QuickSecs:    60,
		ThoroughSecs: 1200,
		MaxChoices:   200000,
		Run:          runC02,
	})
}

func ledgerOpts(r *vfw.Run) scen.Opts {
	o := scen.Opts{MinIdent: 1, MaxIdent: 24, Zones: true, Skew: true, CeremonySoon: true, SmallShards: true}
	if r.Tier == "thorough" {
		o.MaxIdent = 60
	}
	return o
}

func startReplicas(r *vfw.Run, s *scen.Scn) []*simnode.Node {
	nrep := 2 + r.Choose("cfg.replicas", 3)
	if nrep > len(s.Ids) {
		nrep = len(s.Ids)
	}
	var nodes []*simnode.Node
	for i := 0; i < nrep; i++ {
		nodes = append(nodes, s.AddNode(i, nil))
	}
	g := nodes[0].Chain.Head.Hash()
	for _, n := range nodes[1:] {
		if n.Chain.Head.Hash() != g {
			r.Violate("C01:genesis-differs", "replicas derive different genesis blocks from the same allocation: node0 %x node%d %x", g.Bytes()[:8], n.ID, n.Chain.Head.Hash().Bytes()[:8])
		}
	}
	return nodes
}

func runC02(r *vfw.Run) {
	o := ledgerOpts(r)
	o.Contracts = r.Choose("c02.contracts", 3) == 0
	s := scen.New(r, o)
	defer s.Close()
	nodes := startReplicas(r, s)
	l := scen.NewLedger(s)
	l.Mix.Adversarial = 4
	if o.Contracts {
		l.Mix.Contracts = 3 // contract results depend on the block they run in (number, time, seed): builder and validators must agree on it
	}
	if r.Choose("cfg.bringonline", 4) != 0 {
		l.BringOnline(nodes)
	}
	rounds := 20 + r.Choose("cfg.rounds", 51)
	crossValidated := 0
	for i := 0; i < rounds; i++ {
		rr := l.Round(nodes)
		if rr.SelfErr != nil {
			r.Violate(rr.SelfPred, "%s", rr.SelfDetail)
		}
		// every replica with the same head must accept
		for _, n := range nodes {
			if n == rr.Proposer {
				continue
			}
			err, pv, st := s.Validate(n, rr.Enc)
			if pv != nil {
				r.Violate("C02:validation-panicked", "node %d validating block h=%d of node %d: %v\n%s", n.ID, rr.Height, rr.Proposer.ID, pv, st)
			}
			if err != nil {
				r.Violate("C02:honest-block-rejected-by-peer", "node %d rejects block h=%d (empty=%v, %d txs) proposed by node %d, which accepts it itself: %v; proposer's state (A) vs this validator's state (B):%s", n.ID, rr.Height, rr.Empty, rr.Txs, rr.Proposer.ID, err, scen.DiffStates(rr.Proposer.LastApplied, n.LastApplied))
			}
			if !rr.Empty && rr.Txs > 0 {
				crossValidated++
			}
		}
		cert := l.BuildCert(nodes[0], rr)
		l.InsertAll(nodes, rr, "C02")
		l.WriteCert(nodes, rr, cert)
		if l.Mix.Contracts > 0 {
			s.NoteContracts(nodes[0], rr.Block)
		}
		l.Agree(nodes, "C02")
		r.State(fmt.Sprintf("%d/%x", rr.Height, nodes[0].App.State.Root().Bytes()[:8]))
		if rr.Flags != 0 {
			r.Probe(fmt.Sprintf("flags:%b", rr.Flags))
		}
	}
	r.Probe("blocks")
	r.FaultN("adversarial_or_lossy_tx_delivery", s.Blocks)
	r.Case(r.W.Fingerprint(), crossValidated > 0)
	if r.Sample == nil {
		r.Sample = map[string]interface{}{"identities": len(s.Ids), "replicas": len(nodes), "rounds": rounds, "blocks": s.Blocks, "empty_blocks": s.EmptyBlocks, "txs_included": s.TxIncluded, "epoch": nodes[0].App.State.Epoch(), "trace_tail": tail(r.W.Trace, 12)}
	}
}

func tail(s []string, n int) []string {
	if len(s) > n {
		return append([]string{}, s[len(s)-n:]...)
	}
	return append([]string{}, s...)
}
