package checks

import (
	"os"
	"runtime"

	"bytes"
	"fmt"
	"github.com/idena-network/idena-go/log"
	"sort"
	"strings"

	"github.com/idena-network/idena-go/blockchain/types"
	"github.com/idena-network/idena-go/common"
	"github.com/idena-network/idena-go/core/ceremony"
	"github.com/idena-network/idena-go/core/mempool"
	"github.com/idena-network/idena-go/core/state"
	"github.com/idena-network/idena-go/crypto"
	"github.com/idena-network/idena-go/crypto/ecies"

	"verif/sim/oracle"
	"verif/sim/scen"
	"verif/sim/simnode"
	"verif/sim/vfw"
)

var realCeremony = []string{"core/ceremony.ValidationCeremony (block handlers, lottery, qualification, ApplyNewEpoch with its per-height cache, persist/restore through EpochDb, own key / answer / evidence broadcasting)",
	"core/flip.Flipper, core/mempool.KeysPool and TxPool", "core/appstate.EvidenceMap", "database.EpochDb over simdisk", "blockchain.Blockchain (ceremony flags from block time, applyNewEpoch, rewards)", "blockchain/validation of ceremony transactions"}
var stubCeremony = []string{"the people: simulated users author flips, answer with a drawn accuracy against a hidden truth per flip, grade and report (through the node's own SubmitShortAnswers / SubmitLongAnswers entry points)",
	"libp2p gossip (what nodes publish on their event bus is carried as bytes with loss / delay / duplication, plus peer re-synchronisation)", "consensus.Engine loop (round driver)", "kubo (simipfs)",
	"three goroutines that block on real channels or tickers (new-tx queue, short-session timer, all-flips loader): the first two bodies are run by the driver after every block"}

func init() {
	vfw.Register(&vfw.Check{
		ID:    "C17",
		Level: "exploration",
		Rule: "one case = one simulated validation ceremony (sometimes two consecutive ones) over 3-6 replicas that each run the real ValidationCeremony for their own identity, plus identities nobody operates; three runs in four use small shard size limits, so that the second of two consecutive ceremonies runs in 2-4 shards (lottery, key delivery and evidence majority are judged per shard); " +
			"replicas differ in map seed, time zone, clock skew, transaction and key arrival (lossy gossip), restarts between and inside ceremony phases, absence during the ceremony (catch-up from blocks only), and in whether they evaluate the epoch first at proposal, at validation or at insertion; " +
			"sometimes a competing block at the finishing height is validated first, sometimes a participant that does not run the reference client sends an evidence transaction with a payload of its own making (13 kinds: empty, truncated, inconsistent roaring headers, random bytes, a few kilobytes naming 2^26 candidates; crashes, disagreement and - for those runs - allocation of the finishing round are judged, the majority rule only for epochs with well-formed evidence); non-trivial = the validation did not fail, at least two users answered and at least one replica was restarted, absent or pre-validated; distinct by history fingerprint",
		Real:         realCeremony,
		Stub:         stubCeremony,
		Assumptions:  []string{"'missed the session' is taken in its narrowest on-chain sense: no short-answers transaction of the identity in the epoch's blocks; 'lacked its required flips' = fewer flips than required at the lottery block", "a validation in which nobody is validated keeps all identities as they were (the protocol's fail-safe): the per-identity rules are checked for validations that did not fail", "each node's own evidence bitmap depends on its own clock by design; only results computed from on-chain data are compared"},
		QuickSecs:    90,
		ThoroughSecs: 1800,
		MaxChoices:   400000,
		Run: func(r *vfw.Run) {
			if r.Choose("c17.kind", 8) == 0 {
				c17DecisionTable(r)
				return
			}
			runCeremony(r, false)
		},
	})
	vfw.Register(&vfw.Check{
		ID:    "C16",
		Level: "exploration",
		Rule: "two kinds of case. (a) lottery as a function: tape-drawn shard layouts (0-300 candidates, author subsets, 0-4 flips per author, seeds; thorough tier also every layout of <= 5 candidates with <= 2 flips each for 3 seeds) evaluated twice under different map seeds; " +
			"(b) in a simulated ceremony: every replica's lottery compared with every other's and with its own after a restart (restored from EpochDb); key packages of the real nodes travel through lossy gossip and, once peers have re-synchronised, every candidate extracts and decrypts the key of every flip assigned to it and nobody else can; " +
			"non-trivial = a shard with >= 2 authors and >= 3 candidates; distinct by layout / history fingerprint",
		Real:         append(append([]string{}, realCeremony...), "core/ceremony lottery.go (GetAuthorsDistribution, GetFlipsDistribution, getFlipsToSolve)", "mempool.EncryptPrivateKeysPackage / getEncryptedKeyFromPackage", "secstore.DecryptMessage, crypto/ecies"),
		Stub:         stubCeremony,
		Assumptions:  []string{"the claims about assigned flips are evaluated on what the node hands to its user (GetShortFlipsToSolve / GetLongFlipsToSolve / getFlipsToSolve), where the placeholder index of a shard without flips resolves to nothing", "sizes beyond 300 candidates are not sampled"},
		QuickSecs:    90,
		ThoroughSecs: 1800,
		MaxChoices:   400000,
		Run: func(r *vfw.Run) {
			// thorough tier: the first 1092 run indexes enumerate every layout of <= 5 candidates with 0-2 flips each, for 3 seeds
			if r.Tier == "thorough" && r.Index < c16SmallLayouts*3 {
				c16Enumerated(r, r.Index/3, r.Index%3)
				return
			}
			if r.Choose("c16.kind", 3) == 0 {
				n := 4 + r.Choose("c16.ndirect", 12)
				for i := 0; i < n; i++ {
					c16Direct(r, -1)
				}
				return
			}
			runCeremony(r, true)
		},
	})
}

// ---------------- the lottery as a function ----------------

// c16SmallLayouts: number of layouts with 0..5 candidates, each with 0, 1 or 2 flips (sum of 3^n for n = 0..5).
const c16SmallLayouts = 1 + 3 + 9 + 27 + 81 + 243

// c16Enumerated checks the k-th small layout with the s-th fixed seed.
func c16Enumerated(r *vfw.Run, k, sd int) {
	nc := 0
	for pow := 1; k >= pow; pow *= 3 {
		k -= pow
		nc++
	}
	var cands []ceremony.VerifCand
	flipsOf := map[int][][]byte{}
	nflips, nauthors := 0, 0
	code := k
	for i := 0; i < nc; i++ {
		id := scen.NewIdent("lot", i)
		c := ceremony.VerifCand{Addr: id.Addr, PubKey: id.PubK}
		nf := code % 3
		code /= 3
		for j := 0; j < nf; j++ {
			f, _ := scen.SimCid([]byte(fmt.Sprintf("flip-%d-%d", i, j)))
			flipsOf[i] = append(flipsOf[i], f)
			nflips++
		}
		if nf > 0 {
			c.IsAuthor = true
			nauthors++
		}
		cands = append(cands, c)
	}
	seed := make([]byte, 32)
	copy(seed, [][]byte{{1, 2, 3, 4, 5, 6, 7, 8}, {0xff, 0xfe, 0x10, 0, 0, 0x80, 0x7f, 0x01}, {0, 0, 0, 0, 0, 0, 0, 0}}[sd])
	c16CheckLayout(r, cands, flipsOf, seed, fmt.Sprintf("enumerated layout: candidates=%d flips per candidate code=%d seed #%d", nc, k, sd))
	r.Probe("small_layout_enumerated")
	r.Case(fmt.Sprintf("e/%d/%d/%d", nc, k, sd), nauthors >= 2 && nc >= 3)
}

func c16Direct(r *vfw.Run, exhaustiveIdx int) {
	t := r.Tape
	sizes := []int{0, 1, 2, 3, 4, 5, 6, 7, 8, 9, 11, 13, 14, 20, 40, 90, 170, 300}
	nc := sizes[t.Choose("c16.ncand", len(sizes))]
	authorMode := t.Choose("c16.authormode", 5) // 0 none, 1 one, 2 few, 3 half, 4 all
	var cands []ceremony.VerifCand
	flipsOf := map[int][][]byte{}
	nflips := 0
	nauthors := 0
	for i := 0; i < nc; i++ {
		id := scen.NewIdent("lot", i)
		c := ceremony.VerifCand{Addr: id.Addr, PubKey: id.PubK}
		isA := false
		switch authorMode {
		case 1:
			isA = i == t.Choose("c16.theauthor", nc)%nc && nauthors == 0
		case 2:
			isA = t.Choose("c16.isauthor", 6) == 0
		case 3:
			isA = t.Choose("c16.isauthor", 2) == 0
		case 4:
			isA = true
		}
		if isA {
			k := 1 + t.Choose("c16.flipsper", 4)
			for j := 0; j < k; j++ {
				f, _ := scen.SimCid([]byte(fmt.Sprintf("flip-%d-%d", i, j)))
				flipsOf[i] = append(flipsOf[i], f)
				nflips++
			}
			c.IsAuthor = true
			nauthors++
		}
		cands = append(cands, c)
	}
	seed := make([]byte, 32)
	for i := 0; i < 8; i++ {
		seed[i] = byte(t.Choose("c16.seedbyte", 256))
	}
	c16CheckLayout(r, cands, flipsOf, seed, fmt.Sprintf("candidates=%d authors=%d flips=%d mode=%d seed=%x", nc, nauthors, nflips, authorMode, seed[:8]))
	r.Case(fmt.Sprintf("a/%d/%d/%d/%x", nc, nauthors, nflips, seed[:8]), nauthors >= 2 && nc >= 3)
}

func lotteryResultText(res *ceremony.VerifLotteryResult, n int) string {
	var sb strings.Builder
	for i := 0; i < n; i++ {
		var sh, lg []int
		if i < len(res.Short) {
			sh = res.Short[i]
		}
		if i < len(res.Long) {
			lg = res.Long[i]
		}
		fmt.Fprintf(&sb, "%d short=%v long=%v authors=%v recipients=%v\n", i, sh, lg, res.AuthorsPerCandidate[i], res.CandidatesPerAuthor[i])
	}
	return sb.String()
}

// c16CheckLayout evaluates the lottery for one layout and checks the stated invariants.
func c16CheckLayout(r *vfw.Run, cands []ceremony.VerifCand, flipsOf map[int][][]byte, seed []byte, what string) {
	w := r.W
	var res, res2 *ceremony.VerifLotteryResult
	ctxA := *w.CurCtx()
	ctxA.MapSeed = 0x1111
	ctxB := ctxA
	ctxB.MapSeed = 0x77777
	pv, st := w.As(&ctxA, func() { res = ceremony.VerifLotteryDirect(cands, flipsOf, seed) })
	if pv != nil {
		r.Violate("C16:lottery-panicked", "%s: %v\n%s", what, pv, st)
	}
	pv, st = w.As(&ctxB, func() { res2 = ceremony.VerifLotteryDirect(cands, flipsOf, seed) })
	if pv != nil {
		r.Violate("C16:lottery-panicked", "%s: %v\n%s", what, pv, st)
	}
	if a, b := lotteryResultText(res, len(cands)), lotteryResultText(res2, len(cands)); a != b {
		r.Violate("C16:lottery-not-a-function-of-its-inputs", "%s: two evaluations differ: %s", what, oracle.FirstTextDiff(a, b))
	}
	authorIdx := map[string]int{}
	for i := range cands {
		for _, f := range flipsOf[i] {
			authorIdx[string(f)] = i
		}
	}
	c16Invariants(r, cands, res.Flips, res.Short, res.Long, res.CandidatesPerAuthor, authorIdx, what)
	// key packages: every recipient extracts and decrypts the author's private flip key, nobody else can (small layouts)
	if len(cands) <= 14 {
		c16Packages(r, cands, res.CandidatesPerAuthor, what)
	}
}

func c16Packages(r *vfw.Run, cands []ceremony.VerifCand, candidatesPerAuthor map[int][]int, what string) {
	var authors []int
	for a := range candidatesPerAuthor {
		authors = append(authors, a)
	}
	sort.Ints(authors)
	if len(authors) > 3 {
		authors = authors[:3]
	}
	for _, a := range authors {
		pubK, _ := crypto.ToECDSA(crypto.Keccak256([]byte("public-flip-key"), cands[a].Addr[:]))
		privK, _ := crypto.ToECDSA(crypto.Keccak256([]byte("private-flip-key"), cands[a].Addr[:]))
		publicFlipKey, privateFlipKey := ecies.ImportECDSA(pubK), ecies.ImportECDSA(privK)
		var pubKeys [][]byte
		for _, ci := range candidatesPerAuthor[a] {
			pubKeys = append(pubKeys, cands[ci].PubKey)
		}
		var data []byte
		pv, st := r.W.As(r.W.CurCtx(), func() { data = mempool.EncryptPrivateKeysPackage(publicFlipKey, privateFlipKey, pubKeys) })
		if pv != nil {
			r.Violate("C16:key-package-encryption-panicked", "%s author %d: %v\n%s", what, a, pv, st)
		}
		want := crypto.FromECDSA(privK)
		for pos, ci := range candidatesPerAuthor[a] {
			enc, err := mempool.VerifEncryptedKeyFromPackage(publicFlipKey, data, pos)
			if err != nil {
				r.Violate("C16:recipient-cannot-extract-key", "%s: author %d recipient %d (position %d): %v", what, a, ci, pos, err)
			}
			key := scen.NewIdent("lot", ci).Key
			got, err := ecies.ImportECDSA(key).Decrypt(enc, nil, nil)
			if err != nil || !bytes.Equal(got, want) {
				r.Violate("C16:recipient-cannot-decrypt-key", "%s: author %d recipient %d (position %d): err=%v", what, a, ci, pos, err)
			}
		}
		// a non-recipient finds no position it can decrypt
		for ci := range cands {
			in := false
			for _, x := range candidatesPerAuthor[a] {
				in = in || x == ci
			}
			if in {
				continue
			}
			key := scen.NewIdent("lot", ci).Key
			for pos := range candidatesPerAuthor[a] {
				if enc, err := mempool.VerifEncryptedKeyFromPackage(publicFlipKey, data, pos); err == nil {
					if got, err := ecies.ImportECDSA(key).Decrypt(enc, nil, nil); err == nil && bytes.Equal(got, want) {
						r.Violate("C16:non-recipient-decrypts-key", "%s: candidate %d is no recipient of author %d but decrypts position %d", what, ci, a, pos)
					}
				}
			}
			break // one outsider per author is enough
		}
		r.Probe("key_package_checked")
	}
}

// c16Invariants: the claims of the property on what each candidate is handed. authorIdx: flip -> index of its author.
func c16Invariants(r *vfw.Run, cands []ceremony.VerifCand, flips [][]byte, short, long [][]int, candidatesPerAuthor map[int][]int, authorIdx map[string]int, what string) {
	quota := int(common.ShortSessionFlipsCount() + common.ShortSessionExtraFlipsCount())
	exists := map[string]bool{}
	for _, f := range flips {
		exists[string(f)] = true
	}
	isRecipient := func(author, cand int) bool {
		for _, x := range candidatesPerAuthor[author] {
			if x == cand {
				return true
			}
		}
		return false
	}
	gets := map[[2]int]bool{} // (author, candidate): the candidate is handed at least one flip of the author
	for ci, c := range cands {
		for sess, per := range [][][]int{short, long} {
			name := []string{"short", "long"}[sess]
			got := ceremony.VerifFlipsToSolve(c.Addr, cands, per, flips)
			if len(flips) == 0 && len(got) > 0 {
				r.Violate("C16:flips-assigned-although-shard-has-none", "%s: candidate %d gets %d %s flips", what, ci, len(got), name)
			}
			seen := map[string]bool{}
			for _, f := range got {
				if !exists[string(f)] {
					r.Violate("C16:assigned-flip-does-not-exist", "%s: candidate %d %s session: %x", what, ci, name, f)
				}
				if seen[string(f)] {
					r.Violate("C16:flip-listed-twice", "%s: candidate %d %s session lists flip %x twice (indexes %v)", what, ci, name, f[len(f)-4:], per[ci])
				}
				seen[string(f)] = true
				a, ok := authorIdx[string(f)]
				if !ok {
					continue
				}
				// the one placeholder: a long list that would otherwise be empty is filled with flip 0
				placeholder := sess == 1 && len(per[ci]) == 1 && per[ci][0] == 0 && !isRecipient(a, ci)
				if placeholder {
					r.Probe("placeholder_long_flip")
					continue
				}
				gets[[2]int{a, ci}] = true
				if !isRecipient(a, ci) {
					r.Violate("C16:assigned-flip-without-key", "%s: candidate %d is handed flip %x (%s session) of author %d, who encrypts its key for %v only", what, ci, f[len(f)-4:], name, a, candidatesPerAuthor[a])
				}
			}
			if sess == 0 && len(got) > quota {
				r.Violate("C16:short-session-quota-exceeded", "%s: candidate %d gets %d short flips (quota %d)", what, ci, len(got), quota)
			}
			if sess == 1 && len(flips) > 0 && len(got) == 0 {
				r.Violate("C16:empty-long-session-list", "%s: candidate %d has no long-session flips although the shard has %d", what, ci, len(flips))
			}
		}
	}
	var authors []int
	for a := range candidatesPerAuthor {
		authors = append(authors, a)
	}
	sort.Ints(authors)
	for _, a := range authors {
		for _, ci := range candidatesPerAuthor[a] {
			if !gets[[2]int{a, ci}] {
				r.Violate("C16:key-recipient-without-assigned-flip", "%s: author %d encrypts its key for candidate %d, who is handed none of its flips (recipients %v)", what, a, ci, candidatesPerAuthor[a])
			}
		}
	}
}

// ---------------- the simulated ceremony ----------------

type cerEpochFacts struct {
	evidence        map[common.Address][]byte // first evidence transaction of each sender in the epoch's blocks
	candidates      [][]common.Address        // per shard (index 0 = shard 1), lottery order (index = bit of the evidence bitmaps)
	shortTx, longTx map[common.Address]bool
	before          map[common.Address]state.Identity // at the lottery block
	lotteryHeight   uint64
}

// epochResultText: the replica's most recent evaluation of the epoch at height h (captured when it was computed).
func epochResultText(n *simnode.Node, h uint64) (string, bool, bool) {
	for i := len(n.EpochEvals) - 1; i >= 0; i-- {
		if e := n.EpochEvals[i]; e.Height == h {
			return e.Text, e.Failed, true
		}
	}
	return "", false, false
}

func runCeremony(r *vfw.Run, forC16 bool) {
	P := "C17"
	if forC16 {
		P = "C16"
	}
	r.W.GoPolicy = scen.CerGoPolicy
	if os.Getenv("VERIF_NODELOG") != "" {
		// debugging aid: the nodes' own log lines go into the history
		log.Root().SetHandler(log.FuncHandler(func(rec *log.Record) error {
			if rec.Lvl <= log.LvlInfo {
				r.Logf("nodelog[%s] %s %v", r.W.CurCtx().Name, rec.Msg, rec.Ctx)
			}
			return nil
		}))
		defer log.Root().SetHandler(log.DiscardHandler())
	}
	o := scen.Opts{MinIdent: 3, MaxIdent: 10, CeremonySoon: true, MostlyValidated: true, Zones: true, Skew: r.Choose("cer.skew", 2) == 0, SmallShards: true}
	s := scen.New(r, o)
	s.RealCeremony = true
	defer s.Close()
	k := 3 + r.Choose("cer.replicas", 4)
	if k > len(s.Ids) {
		k = len(s.Ids)
	}
	var nodes []*simnode.Node
	for i := 0; i < k; i++ {
		nodes = append(nodes, s.AddNode(i, nil))
	}
	// identities that come into being the normal way: invited by the god identity, activated with their own public
	// key (candidates of their first validation), each operating a replica of its own
	var invited []*scen.Ident
	for i := r.Choose("cer.invited", 4); i > 0 && s.Ids[0].Init != state.Undefined; i-- {
		id := scen.NewIdent("invited", i)
		id.Init = 255
		invited = append(invited, id)
		s.Extra = append(s.Extra, id)
		s.RegisterIdent(id)
		nodes = append(nodes, s.AddNodeFor(id, nil))
	}
	l := scen.NewLedger(s)
	l.PanicProp = P
	l.Mix.Ceremony = false // ceremony transactions come from the nodes themselves
	l.Mix.Adversarial = 10
	l.MaxTxs = 3
	l.BringOnline(nodes)
	cer := scen.NewCer(s, l, nodes)
	if r.Choose("cer.lossless", 4) == 0 {
		cer.Net.Drop1in = 0
	}
	wantEpochs := 1
	if r.Choose("cer.twoepochs", 4) == 0 {
		wantEpochs = 2
	}
	if wantEpochs == 1 && s.SmallShardsOn && r.ChooseOpt("cer.twoepochs.shards", 2) == 1 {
		wantEpochs = 2 // shards appear at the first epoch change: the second ceremony is the one that runs in several shards
	}
	encs := map[uint64][]byte{}
	certs := map[uint64]*types.BlockCert{}
	facts := &cerEpochFacts{shortTx: map[common.Address]bool{}, longTx: map[common.Address]bool{}}
	behind := map[int]uint64{} // replicas that are absent: height they stopped at
	perturbed := 0
	answered := 0
	epochsDone := 0
	validationsNotFailed := 0
	lotteryChecked := false
	var heldBy *simnode.Node
	prevPeriod := state.NonePeriod
	up := func() []*simnode.Node {
		var u []*simnode.Node
		for i, n := range nodes {
			if _, b := behind[i]; !b {
				u = append(u, n)
			}
		}
		return u
	}
	catchUp := func(i int) bool {
		n := nodes[i]
		for h := n.Chain.Head.Height() + 1; h <= nodes[0].Chain.Head.Height() || h <= up()[0].Chain.Head.Height(); h++ {
			enc, ok := encs[h]
			if !ok {
				break
			}
			err, pv, st := s.Insert(n, enc)
			if pv != nil {
				r.Violate(P+":catch-up-panicked", "node %d inserting block %d: %v\n%s", n.ID, h, pv, st)
			}
			if err != nil {
				b := new(types.Block)
				b.FromBytes(enc)
				if b.Header.Flags().HasFlag(types.ValidationFinished) {
					r.Violate("C17:replica-that-was-absent-computes-another-epoch-result", "node %d, absent from height %d, rejects the block %d that finishes the validation: %v", n.ID, behind[i], h, err)
				}
				r.Probe("scenario_cut_short:catch-up-block-rejected")
				return false
			}
			if c := certs[h]; c != nil {
				n.Do(func() { n.Chain.WriteCertificate(n.Chain.Head.Hash(), c, n.Chain.IsPermanentCert(n.Chain.Head)) })
			}
			cer.Settle()
		}
		delete(behind, i)
		delete(cer.Net.Down, i)
		r.Fault("absent_replica_caught_up_from_blocks")
		return true
	}
	maxRounds := 260
	craftedN, craftedBytes, craftedKind := 0, 0, "" // crafted evidence transactions submitted so far (craftedBytes = largest payload + 1)
	for round := 0; round < maxRounds && epochsDone < wantEpochs; round++ {
		live := up()
		if len(live) == 0 {
			break
		}
		var m0 runtime.MemStats
		if craftedBytes > 0 {
			runtime.ReadMemStats(&m0)
		}
		rr := l.Round(live)
		if craftedBytes > 0 {
			// everything a crafted evidence payload can make the node allocate happens while the epoch is evaluated, i.e.
			// while a block at the finishing height is built or validated (one task runs at a time: the delta is this round's)
			var m1 runtime.MemStats
			runtime.ReadMemStats(&m1)
			if d := m1.TotalAlloc - m0.TotalAlloc; d > 192<<20 {
				r.Violate("C17:allocation-out-of-proportion-to-evidence-payload", "building and validating the block at h=%d allocated more than 192 MiB; the epoch's blocks carry %d crafted evidence transaction(s), the largest payload has %d bytes (%s)", rr.Height, craftedN, craftedBytes-1, craftedKind)
			}
		}
		if !l.Usable(rr) {
			break
		}
		encs[rr.Height] = rr.Enc
		finishing := rr.Flags.HasFlag(types.ValidationFinished)
		// a competing block at the finishing height, validated by some replicas before the block that wins
		if finishing && len(live) > 1 && r.Choose("cer.competing", 3) == 0 {
			el := s.Eligible(live)
			if len(el) > 0 {
				alt := el[r.Choose("cer.altproposer", len(el))]
				// its mempool differs: a few more transactions reach it first; a replica that still holds a ceremony
				// transaction nobody else has seen (see 'held' below) is preferred
				for _, n := range el {
					if n == heldBy && n != rr.Proposer {
						alt = n
						r.Fault("competing_block_carries_a_ceremony_tx_nobody_else_has")
					}
				}
				l.SubmitSome([]*simnode.Node{alt})
				if prop, pv, _ := s.Propose(alt); pv == nil && prop != nil && prop.Block.Hash() != rr.Block.Hash() {
					aenc, _ := prop.Block.ToBytes()
					for _, n := range live {
						if n != rr.Proposer && r.Choose("cer.altseenby", 2) == 0 {
							s.Validate(n, aenc)
							perturbed++
						}
					}
					r.Fault("competing_block_at_finishing_height_validated_first")
				}
			}
		}
		// during the long session a ceremony transaction of an identity nobody operates reaches one replica only
		if heldBy == nil && live[0].App.State.ValidationPeriod() == state.LongSessionPeriod && r.Choose("cer.heldtx", 3) == 0 {
			if el := s.Eligible(live); len(el) > 1 {
				z := el[r.Choose("cer.heldby", len(el))]
				for _, id := range s.Ids {
					operated := false
					for _, n := range nodes {
						operated = operated || n.Addr == id.Addr
					}
					if operated {
						continue
					}
					if tx := s.LongAnswersTx(z, id); tx != nil && s.Submit(z, tx) == nil {
						heldBy = z
						r.Fault("ceremony_tx_reaches_one_replica_only")
						break
					}
				}
			}
		}
		// a participant who does not run the reference client sends its evidence transaction with a payload of its own
		// making (the transaction validator does not look at the payload; it is read when the epoch is evaluated)
		if live[0].App.State.ValidationPeriod() == state.LongSessionPeriod && r.ChooseOpt("cer.hostileevidence", 4) == 3 {
			if el := s.Eligible(live); len(el) > 0 {
				z := el[r.Choose("cer.hostileevidence.via", len(el))]
				id := s.Ids[r.Choose("cer.hostileevidence.who", len(s.Ids))]
				payload, kind := s.HostileEvidencePayload()
				if tx := s.EvidenceTxOf(z, id, payload); tx != nil && s.Submit(z, tx) == nil {
					s.CraftedEvidence[string(payload)] = true
					craftedN++
					if len(payload) >= craftedBytes {
						craftedBytes, craftedKind = len(payload)+1, kind
					}
					r.Fault("evidence_tx_with_crafted_payload")
					r.Probe("crafted_evidence:" + kind)
				}
			}
		}
		if live[0].App.State.ValidationPeriod() == state.NonePeriod {
			heldBy = nil
		}
		cert := l.BuildCert(live[0], rr)
		certs[rr.Height] = cert
		for _, n := range live {
			if n != rr.Proposer && r.Choose("cer.prevalidate", 3) == 0 {
				s.Validate(n, rr.Enc) // first evaluation at validation, cache hit at insertion
				if finishing {
					perturbed++
				}
			}
			err, pv, st := s.Insert(n, rr.Enc)
			if pv != nil {
				r.Violate(P+":block-insertion-panicked", "node %d block %d (flags %b): %v\n%s", n.ID, rr.Height, rr.Flags, pv, st)
			}
			if err != nil {
				if finishing {
					a, _, _ := epochResultText(rr.Proposer, rr.Height)
					b, _, _ := epochResultText(n, rr.Height)
					r.Violate("C17:replicas-disagree-on-epoch-result", "node %d rejects block %d, which finishes the validation, built by node %d: %v; proposer's result (A) vs this node's (B): %s", n.ID, rr.Height, rr.Proposer.ID, err, oracle.FirstTextDiff(a, b))
				}
				r.Probe("scenario_cut_short:honest-block-rejected-by-peer")
				r.Note("node %d rejected block h=%d: %v", n.ID, rr.Height, err)
				return
			}
		}
		l.WriteCert(live, rr, cert)
		for _, tx := range rr.Block.Body.Transactions {
			snd, _ := types.Sender(tx)
			switch tx.Type {
			case types.SubmitShortAnswersTx:
				facts.shortTx[snd] = true
			case types.SubmitLongAnswersTx:
				facts.longTx[snd] = true
			case types.EvidenceTx:
				// (the epoch is evaluated while the finishing block is being built / validated: ceremony transactions
				// carried by that block itself come too late for everybody - an earlier version of this oracle counted them)
				if _, dup := facts.evidence[snd]; !dup && facts.evidence != nil && !finishing {
					facts.evidence[snd] = tx.Payload
				}
			}
		}
		r.State(fmt.Sprintf("%d/%x/%d", rr.Height, live[0].App.State.Root().Bytes()[:6], live[0].App.State.ValidationPeriod()))
		if rr.Flags.HasFlag(types.FlipLotteryStarted) {
			facts.before = map[common.Address]state.Identity{}
			facts.lotteryHeight = rr.Height
			facts.shortTx, facts.longTx = map[common.Address]bool{}, map[common.Address]bool{}
			facts.evidence, facts.candidates = map[common.Address][]byte{}, nil
			live[0].Do(func() {
				for _, a := range s.AllActors() {
					facts.before[a.Addr] = live[0].App.State.GetIdentity(a.Addr)
				}
			})
			lotteryChecked = false
			r.Probe("flip_lottery_started")
		}
		if live[0].App.State.ValidationPeriod() == state.NonePeriod {
			for _, id := range invited {
				switch live[0].App.State.GetIdentityState(id.Addr) {
				case state.Undefined:
					cer.Invite(id, live[0])
				case state.Invite:
					if cer.Activate(id, live[0]) {
						r.Probe("invitation_activation_submitted")
					}
				}
			}
		}
		cer.Settle()
		cer.Net.Pump()
		if r.Choose("cer.resync", 3) == 0 && len(nodes) > 1 {
			cer.Net.Sync(r.Choose("cer.syncfrom", len(nodes)), r.Choose("cer.syncto", len(nodes)))
		}
		cer.UsersAct()
		cer.Settle()
		per := live[0].App.State.ValidationPeriod()
		// ---- C16: lottery agreement once every live replica has finished it (at the latest when the short session starts) ----
		if per >= state.ShortSessionPeriod && !lotteryChecked && facts.before != nil {
			lotteryChecked = true
			c16InScenario(r, s, cer, live, forC16, facts)
		}
		if finishing {
			// ---- C17 oracles ----
			epochsDone++
			var ref string
			var refNode *simnode.Node
			anyFailed := false
			for _, n := range live {
				txt, failed, ok := epochResultText(n, rr.Height)
				if !ok {
					continue
				}
				anyFailed = anyFailed || failed
				if refNode == nil {
					ref, refNode = txt, n
				} else if txt != ref {
					r.Violate("C17:replicas-disagree-on-epoch-result", "block %d: node %d vs node %d: %s", rr.Height, refNode.ID, n.ID, oracle.FirstTextDiff(ref, txt))
				}
			}
			if !anyFailed {
				validationsNotFailed++
				c17Rules(r, s, live[0], facts)
			} else {
				r.Probe("validation_failed_nobody_validated")
			}
			answered += len(facts.shortTx)
			r.Probe("validation_finished")
		}
		// ---- faults: restarts and absences ----
		if per != prevPeriod {
			prevPeriod = per
			r.Probe(fmt.Sprintf("period_%d_reached", per))
		}
		inCeremony := per != state.NonePeriod
		if (inCeremony && r.Choose("cer.restart", 8) == 0) || (!inCeremony && r.Choose("cer.restartidle", 60) == 0) {
			i := r.Choose("cer.restartwho", len(nodes))
			if _, b := behind[i]; !b {
				if cer.RestartNode(nodes[i]) {
					r.Fault(fmt.Sprintf("restart_in_period_%d", per))
					perturbed++
					cer.Settle()
				} else {
					r.Probe("scenario_cut_short:restart-failed")
					return
				}
			}
		}
		if len(behind) == 0 && len(nodes) > 2 && r.Choose("cer.absent", 40) == 0 {
			i := 1 + r.Choose("cer.absentwho", len(nodes)-1)
			behind[i] = nodes[i].Chain.Head.Height()
			cer.Net.Down[i] = true
			r.Fault(fmt.Sprintf("replica_absent_from_period_%d", per))
			perturbed++
		} else if len(behind) > 0 && r.Choose("cer.return", 12) == 0 {
			for i := range nodes {
				if _, b := behind[i]; b {
					if !catchUp(i) {
						return
					}
				}
			}
		}
	}
	// replicas still absent catch up at the end (evaluation from blocks only)
	for i := range nodes {
		if _, b := behind[i]; b {
			if !catchUp(i) {
				return
			}
		}
	}
	if len(nodes) > 1 {
		l.Agree(nodes, P)
	}
	r.Case("b/"+r.W.Fingerprint(), validationsNotFailed > 0 && answered >= 2 && perturbed > 0)
	if r.Sample == nil {
		r.Sample = map[string]interface{}{"kind": "simulated ceremony", "replicas": len(nodes), "identities": len(s.Ids), "epochs_finished": epochsDone, "validations_not_failed": validationsNotFailed,
			"users_that_answered": answered, "perturbations": perturbed, "blocks": s.Blocks, "trace_tail": tail(r.W.Trace, 14)}
	}
}

// c17Rules: per-identity rules, judged from on-chain facts only (independent of the implementation's decision table).
func c17Rules(r *vfw.Run, s *scen.Scn, n *simnode.Node, f *cerEpochFacts) {
	if f.before == nil {
		return
	}
	// approval by the evidence maps, recomputed from the evidence transactions in the epoch's blocks: a candidate counts
	// as present only if a strict majority of the maps (of senders that are candidates themselves) contains it
	notApproved := map[common.Address]bool{}
	for shard, shardCands := range f.candidates {
		if len(shardCands) == 0 {
			continue
		}
		// bitmaps are positional within the sender's shard: only the maps of candidates of this shard say anything
		isCand := map[common.Address]bool{}
		for _, c := range shardCands {
			isCand[c] = true
		}
		nmaps := 0
		score := map[int]int{}
		var senders []common.Address
		for snd := range f.evidence {
			senders = append(senders, snd)
		}
		sort.Slice(senders, func(i, j int) bool { return bytes.Compare(senders[i][:], senders[j][:]) < 0 })
		crafted := false
		for _, snd := range senders {
			if s.CraftedEvidence[string(f.evidence[snd])] {
				// what a malformed bitmap contributes is not specified anywhere: the majority rule is judged for epochs whose
				// evidence is well-formed (crashes and disagreement between replicas are judged regardless)
				r.Probe("evidence_majority_not_judged(crafted_payload_on_chain)")
				crafted = true
				break
			}
		}
		for _, snd := range senders {
			if !isCand[snd] || crafted {
				continue
			}
			bm := common.NewBitmap(uint32(len(shardCands)))
			bm.Read(f.evidence[snd])
			nmaps++
			for _, v := range bm.ToArray() {
				score[int(v)]++
			}
		}
		for i, c := range shardCands {
			if !crafted && 2*score[i] <= nmaps {
				notApproved[c] = true
			}
		}
		r.Probe(fmt.Sprintf("evidence_maps_on_chain_%d", nmaps))
		if len(f.candidates) > 1 {
			r.Probe(fmt.Sprintf("evidence_majority_judged_in_shard_%d_of_%d", shard+1, len(f.candidates)))
		}
	}
	n.Do(func() {
		for _, a := range s.AllActors() {
			if notApproved[a.Addr] {
				after := n.App.State.GetIdentity(a.Addr)
				if after.State == state.Newbie || after.State == state.Verified || after.State == state.Human {
					b := f.before[a.Addr]
					r.Violate("C17:identity-not-approved-by-a-majority-of-evidence-maps-is-validated", "%x: state %d -> %d although at most half of the evidence maps on chain contain it", a.Addr[:4], b.State, after.State)
				}
				r.Probe("candidate_not_approved_by_evidence")
			}
		}
	})
	n.Do(func() {
		for _, a := range s.AllActors() {
			before, ok := f.before[a.Addr]
			if !ok {
				continue
			}
			after := n.App.State.GetIdentity(a.Addr)
			validatedAfter := after.State == state.Newbie || after.State == state.Verified || after.State == state.Human
			lackedFlips := before.RequiredFlips > uint8(len(before.Flips))
			wasCandidate := before.State == state.Candidate || before.State == state.Newbie || before.State == state.Verified || before.State == state.Human || before.State == state.Suspended || before.State == state.Zombie
			if wasCandidate && (!f.shortTx[a.Addr] || lackedFlips) && validatedAfter {
				r.Violate("C17:identity-that-missed-or-lacked-flips-is-validated", "%x: state %d -> %d although short-answers tx on chain=%v, flips made %d of %d required", a.Addr[:4], before.State, after.State, f.shortTx[a.Addr], len(before.Flips), before.RequiredFlips)
			}
			if before.State == state.Invite && after.State != state.Killed && after.State != state.Undefined {
				r.Violate("C17:unactivated-invitation-not-terminated", "%x: state Invite -> %d", a.Addr[:4], after.State)
			}
			if (before.State == state.Killed || before.State == state.Undefined) && after.State != state.Killed && after.State != state.Undefined {
				r.Violate("C17:terminated-identity-came-back-through-validation", "%x: state %d -> %d", a.Addr[:4], before.State, after.State)
			}
			r.Probe(fmt.Sprintf("transition_%d_to_%d", before.State, after.State))
		}
	})
}

// c16InScenario: lottery agreement across replicas (and with a restarted self), invariants on the real node's view,
// and - after peers have re-synchronised - key delivery to exactly the assigned candidates.
func c16InScenario(r *vfw.Run, s *scen.Scn, cer *scen.Cer, live []*simnode.Node, deep bool, facts *cerEpochFacts) {
	var ref string
	var refNode *simnode.Node
	for _, n := range live {
		fin := false
		n.Do(func() { fin = n.VC.VerifLottery(1).Finished })
		if !fin {
			r.Probe("lottery_not_finished_on_a_replica_at_short_session")
			continue
		}
		txt := scen.LotteryTextAll(n)
		if refNode == nil {
			ref, refNode = txt, n
		} else if txt != ref {
			r.Violate("C16:replicas-compute-different-lotteries", "node %d vs node %d: %s", refNode.ID, n.ID, oracle.FirstTextDiff(ref, txt))
		}
	}
	if refNode == nil {
		return
	}
	r.Probe("lottery_compared_across_replicas")
	nsh := 1
	refNode.Do(func() {
		nsh = int(refNode.App.State.ShardsNum())
		facts.candidates = nil
		for sh := 1; sh <= nsh; sh++ {
			facts.candidates = append(facts.candidates, append([]common.Address{}, refNode.VC.VerifLottery(common.ShardId(sh)).Candidates...))
		}
	})
	if nsh > 1 {
		r.Probe(fmt.Sprintf("ceremony_in_a_network_of_%d_shards", nsh))
	}
	if !deep {
		return
	}
	// a replica restarted now restores the same lottery from its epoch database
	if len(live) > 1 && r.Choose("c16.restartcheck", 2) == 0 {
		v := live[1+r.Choose("c16.restartwho", len(live)-1)]
		if cer.RestartNode(v) {
			cer.Settle()
			if txt := scen.LotteryTextAll(v); txt != ref {
				r.Violate("C16:lottery-differs-after-restart", "node %d after restart vs node %d: %s", v.ID, refNode.ID, oracle.FirstTextDiff(ref, txt))
			}
			r.Fault("restart_after_lottery")
		}
	}
	type shardView struct {
		view  *ceremony.VerifLotteryView
		cands []ceremony.VerifCand
		idxOf map[common.Address]int
		what  string
	}
	var views []shardView
	for sh := 1; sh <= nsh; sh++ {
		// invariants on the node's own view
		var view *ceremony.VerifLotteryView
		refNode.Do(func() { view = refNode.VC.VerifLottery(common.ShardId(sh)) })
		var cands []ceremony.VerifCand
		idxOf := map[common.Address]int{}
		for i, a := range view.Candidates {
			cands = append(cands, ceremony.VerifCand{Addr: a, PubKey: view.PubKeys[i], IsAuthor: view.IsAuthor[i]})
			idxOf[a] = i
		}
		authorIdx := map[string]int{}
		nauthors := 0
		for _, isA := range view.IsAuthor {
			if isA {
				nauthors++
			}
		}
		for f, a := range view.FlipAuthor {
			authorIdx[f] = idxOf[a]
		}
		what := fmt.Sprintf("ceremony lottery at node %d, shard %d of %d (candidates=%d authors=%d flips=%d)", refNode.ID, sh, nsh, len(cands), nauthors, len(view.Flips))
		c16Invariants(r, cands, view.Flips, view.Short, view.Long, view.CandidatesPerAuthor, authorIdx, what)
		r.Case(fmt.Sprintf("b-lottery/%d/%d/%d/%d/%s", sh, len(cands), nauthors, len(view.Flips), r.W.Fingerprint()), nauthors >= 2 && len(cands) >= 3)
		views = append(views, shardView{view, cands, idxOf, what})
	}
	// key delivery: let faults stop, peers re-synchronise, delayed broadcasts fire
	for i := 0; i < 3; i++ {
		s.W.Advance(45 * 1e9)
		cer.Settle()
		cer.Net.Pump()
	}
	cer.Net.SyncAll()
	cer.Settle()
	nodeOf := map[common.Address]*simnode.Node{}
	for _, n := range live {
		nodeOf[n.Addr] = n
	}
	for _, sv := range views {
		view, cands, idxOf, what := sv.view, sv.cands, sv.idxOf, sv.what
		for ci, c := range cands {
			cn := nodeOf[c.Addr]
			if cn == nil {
				continue
			}
			for _, per := range [][][]int{view.Short, view.Long} {
				if ci >= len(per) {
					continue
				}
				for _, fi := range per[ci] {
					if len(view.Flips) == 0 {
						continue
					}
					f := view.Flips[fi%len(view.Flips)]
					author := view.FlipAuthor[string(f)]
					an := nodeOf[author]
					if an == nil {
						continue // nobody operates the author: no keys are ever published
					}
					ai := idxOf[author]
					isRec := false
					for _, x := range view.CandidatesPerAuthor[ai] {
						isRec = isRec || x == ci
					}
					var pub, encPriv []byte
					var err error
					cn.Do(func() { pub, encPriv, err = cn.VC.GetFlipKeys(c.Addr, f) })
					if !isRec {
						continue // placeholder
					}
					if len(c.PubKey) == 0 {
						// identities allocated in the genesis block have no public key in the state: no author can encrypt
						// for them (identities created by invitation + activation do)
						r.Probe("candidate_without_public_key_in_state")
						continue
					}
					// did the author's node publish at all? (it does so only while it interacts with the network)
					published := false
					an.Do(func() {
						_, _, _, published = an.Keys.Get(common.Hash128{})
						published = an.Keys.GetPublicFlipKey(author) != nil
					})
					if !published {
						r.Probe("author_node_did_not_publish_keys")
						continue
					}
					if err != nil {
						r.Violate("C16:assigned-candidate-cannot-get-flip-key", "%s: candidate %x (node %d) flip %x of author %x (node %d) after peers re-synchronised: %v", what, c.Addr[:4], cn.ID, f[len(f)-4:], author[:4], an.ID, err)
					}
					var dec []byte
					cn.Do(func() { dec, err = cn.Sec.DecryptMessage(encPriv) })
					var want []byte
					an.Do(func() { want = crypto.FromECDSA(an.Flipper.GetFlipPrivateEncryptionKey().ExportECDSA()) })
					if err != nil || !bytes.Equal(dec, want) {
						r.Violate("C16:assigned-candidate-cannot-decrypt-flip-key", "%s: candidate %x flip %x of author %x: err=%v", what, c.Addr[:4], f[len(f)-4:], author[:4], err)
					}
					_ = pub
					r.Probe("assigned_flip_key_decrypted_by_candidate_node")
				}
			}
		}
	}
}

// c17DecisionTable samples the status decision function over prior statuses, flags and score tuples on and around the
// published thresholds and checks the three rules of the property that do not depend on the table's details.
func c17DecisionTable(r *vfw.Run) {
	t := r.Tape
	scores := []float32{0, 0.3, 0.59, 0.6, 0.61, 0.74, 0.75, 0.76, 0.91, 0.92, 0.93, 1}
	flips := []uint32{0, 1, 5, 9, 10, 11, 12, 13, 14, 23, 24, 25, 100}
	states := []state.IdentityState{state.Undefined, state.Invite, state.Candidate, state.Verified, state.Suspended, state.Killed, state.Zombie, state.Newbie, state.Human}
	n := 2000
	for i := 0; i < n; i++ {
		prev := states[t.Choose("c17.dt.prev", len(states))]
		id := state.Identity{State: prev, Birthday: uint16(t.Choose("c17.dt.birthday", 5))}
		short, long, total := scores[t.Choose("c17.dt.short", len(scores))], scores[t.Choose("c17.dt.long", len(scores))], scores[t.Choose("c17.dt.total", len(scores))]
		tq, sq := flips[t.Choose("c17.dt.totalflips", len(flips))], flips[t.Choose("c17.dt.shortflips", len(flips))]
		missed, noQualShort, nonQualLong := t.Choose("c17.dt.missed", 2) == 0, t.Choose("c17.dt.noqualshort", 4) == 0, t.Choose("c17.dt.nonquallong", 4) == 0
		fix, u10, u12 := t.Choose("c17.dt.fix", 2) == 0, t.Choose("c17.dt.u10", 2) == 0, t.Choose("c17.dt.u12", 2) == 0
		var got state.IdentityState
		pv, st := r.W.As(r.W.CurCtx(), func() {
			got = ceremony.VerifDetermineNewIdentityState(id, short, long, total, tq, missed, noQualShort, nonQualLong, fix, u10, sq, u12)
		})
		what := fmt.Sprintf("prior status %d, scores short %v long %v total %v, qualified flips total %d short %d, missed=%v noQualShort=%v nonQualLong=%v flags fix=%v u10=%v u12=%v", prev, short, long, total, tq, sq, missed, noQualShort, nonQualLong, fix, u10, u12)
		if pv != nil {
			r.Violate("C17:status-decision-panicked", "%s: %v\n%s", what, pv, st)
		}
		validated := got == state.Newbie || got == state.Verified || got == state.Human
		if missed && validated {
			r.Violate("C17:identity-that-missed-or-lacked-flips-is-validated", "decision table: %s -> %d", what, got)
		}
		if prev == state.Invite && got != state.Killed && got != state.Undefined {
			r.Violate("C17:unactivated-invitation-not-terminated", "decision table: %s -> %d", what, got)
		}
		if (prev == state.Killed || prev == state.Undefined) && got != state.Killed && got != state.Undefined {
			r.Violate("C17:terminated-identity-came-back-through-validation", "decision table: %s -> %d", what, got)
		}
		r.Probe(fmt.Sprintf("decision_%d_to_%d", prev, got))
	}
	r.Case("a/"+r.W.Fingerprint(), true)
}
