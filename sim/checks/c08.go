package checks

import (
	"bytes"
	"fmt"
	"regexp"
	"sort"
	"strings"

	"github.com/idena-network/idena-go/blockchain/types"
	"github.com/idena-network/idena-go/common"
	"github.com/idena-network/idena-go/consensus"
	"github.com/idena-network/idena-go/core/appstate"
	"github.com/idena-network/idena-go/ipfs"
	"github.com/idena-network/idena-go/protocol"

	"verif/sim/oracle"
	"verif/sim/scen"
	"verif/sim/simnode"
	"verif/sim/vfw"
)

func init() {
	vfw.Register(&vfw.Check{
		ID:    "C08",
		Level: "exploration",
		Rule: "one case = one simulated partition: replicas share a certified prefix, two groups extend it with certified branches of drawn lengths and contents, the partition heals and a node asks a peer of the other group for its fork (real GetTopBlockHashes -> real ReadBlockForForkedPeer -> BlocksRange bytes through the real codec -> bodies through the simulated content store -> real ForkResolver.processBlocks -> ApplyFork); " +
			"the Byzantine peer rewrites certificates (nil, empty-but-present, under-quorum, forged, of another block) and bundles (tampered block, dropped/duplicated/reordered/truncated); " +
			"non-trivial = both branches have >= 1 block and the fork was either adopted or refused for a certificate/validity reason; distinct by history fingerprint",
		Real:         append(append([]string{}, realLedger...), "consensus.ForkResolver (processBlocks, checkForkSize, applyFork)", "Blockchain.ValidateSubChain / ResetTo / ReadBlockForForkedPeer / GetTopBlockHashes", "protocol blockRange codec"),
		Stub:         append(append([]string{}, stubLedger...), "protocol.Downloader.SeekForkedBlocks (the harness moves the bytes and fetches bodies)"),
		Assumptions:  []string{"the fork weight rule (checkForkSize) is product policy: the check never demands adoption, only that what is adopted is valid and certified and that a refusal changes nothing", "certificate quorum is judged by the reference predicate of C07 on the committee drawn by the implementation"},
		QuickSecs:    60,
		ThoroughSecs: 1200,
		MaxChoices:   300000,
		Run:          runC08,
	})
}

// refCertOn judges cert for block on top of prev using node n's view at prev (n's head must be prev).
func refCertOn(n *simnode.Node, prev *types.Header, block *types.Header, cert *types.BlockCert) oracle.CertVerdict {
	var v oracle.CertVerdict
	n.Do(func() {
		if cert == nil {
			v = oracle.CertVerdict{MustReject: true, Note: "nil"}
			return
		}
		vc := n.App.ValidatorsCache
		final := cert.Step == types.Final
		cc := n.Cfg.Consensus
		nval := vc.ValidatorsSize()
		size := n.Chain.GetCommitteeSize(vc, final)
		sv := vc.GetOnlineValidators(prev.Seed(), block.Height(), cert.Step, size)
		if sv == nil {
			v = oracle.CertVerdict{MustReject: true, Note: "no committee"}
			return
		}
		th := oracle.RefThreshold(nval, final, cc.CommitteePercent, cc.FinalCommitteePercent, cc.AgreementThreshold, cc.MaxCommitteeSize)
		v = oracle.RefCert(prev.Hash(), block.Hash(), block.Height(), cert, sv.Original, sv.ApprovedValidators, th, cc.AgreementThreshold)
	})
	return v
}

type branch struct {
	nodes  []*simnode.Node
	l      *scen.Ledger
	blocks []*types.Block
	txs    []*types.Transaction
}

func runC08(r *vfw.Run) { forkScenario(r, false) }

// forkScenario: a network splits, both sides build certified blocks, one node is offered the other side's branch through
// the real fork resolver. purity=false is C08 (Byzantine peer, adoption oracles). purity=true is C01's view of the same
// situation: the peer is honest, and what is judged is that the blocks - which the peer's side validated and applied with
// its head at their parent - get the same verdict and the same result from a node that validates them speculatively on
// top of the common ancestor while its own head is somewhere else.
func forkScenario(r *vfw.Run, purity bool) {
	o := scen.Opts{MinIdent: 3, MaxIdent: 16, CeremonySoon: r.Choose("c08.ceremony", 3) == 0}
	if purity {
		// small networks whose size changes on one side of the split (kills, a ceremony) are where head and ancestor differ most
		o.MinIdent, o.MaxIdent = 2, 10
		o.CeremonySoon = r.Choose("c01.fork.ceremony", 2) == 0
	}
	s := scen.New(r, o)
	defer s.Close()
	nodes := startReplicas(r, s)
	if len(nodes) < 2 {
		return
	}
	addrs := func() []common.Address {
		var a []common.Address
		for _, x := range s.AllActors() {
			a = append(a, x.Addr)
		}
		return a
	}()
	l := scen.NewLedger(s)
	l.Mix.Adversarial = 10
	l.BringOnline(nodes)
	prefix := 4 + r.Choose("c08.prefix", 12)
	round := func(br *branch) bool {
		rr := br.l.Round(br.nodes)
		if !br.l.Usable(rr) {
			return false
		}
		cert := br.l.BuildCert(br.nodes[0], rr)
		if !br.l.TryInsertAll(br.nodes, rr) {
			return false
		}
		if cert != nil {
			// every block carries its certificate on the nodes that built the branch
			cb, _ := cert.ToBytes()
			for _, n := range br.nodes {
				n.Do(func() {
					c := new(types.BlockCert)
					if c.FromBytes(cb) == nil {
						n.Chain.WriteCertificate(rr.Block.Hash(), c, true)
					}
				})
			}
		} else {
			r.Probe("block_without_certificate")
		}
		br.blocks = append(br.blocks, rr.Block)
		br.txs = append(br.txs, rr.Block.Body.Transactions...)
		return true
	}
	all := &branch{nodes: nodes, l: l}
	for i := 0; i < prefix; i++ {
		if !round(all) {
			return
		}
	}
	ancestor := nodes[0].Chain.Head.Height()
	m := 1 + r.Choose("c08.split", len(nodes)-1)
	ga := &branch{nodes: nodes[:m], l: scen.NewLedger(s)}
	gb := &branch{nodes: nodes[m:], l: scen.NewLedger(s)}
	ga.l.Mix, gb.l.Mix = l.Mix, l.Mix
	maxLen := 8
	if r.Tier == "thorough" {
		maxLen = 40
	}
	la, lb := 1+r.Choose("c08.lenA", maxLen), 1+r.Choose("c08.lenB", maxLen)
	r.Fault("partition")
	for i := 0; i < la || i < lb; i++ {
		if i < la && !round(ga) {
			return
		}
		if i < lb && !round(gb) {
			return
		}
	}
	r.Fault("heal")
	// who asks whom
	L, P := ga.nodes[r.Choose("c08.L", len(ga.nodes))], gb.nodes[r.Choose("c08.P", len(gb.nodes))]
	own, theirs := ga, gb
	if r.Choose("c08.direction", 2) == 1 {
		L, P = gb.nodes[r.Choose("c08.L2", len(gb.nodes))], ga.nodes[r.Choose("c08.P2", len(ga.nodes))]
		own, theirs = gb, ga
	}
	var hashes []common.Hash
	L.Do(func() { hashes = L.Chain.GetTopBlockHashes(100) })
	// an honest peer keeps certificates for permanent-certificate blocks and for its latest blocks only: in some runs the
	// certificates of the other blocks of its branch are gone from its store before it is asked
	if !purity && r.Choose("c08.weakcertsgone", 3) == 0 {
		P.Do(func() {
			head := P.Chain.Head.Height()
			for _, b := range theirs.blocks {
				if b.Height() < head && !P.Chain.IsPermanentCert(b.Header) {
					P.Chain.VerifRepo().VerifRemoveCertificate(b.Hash())
				}
			}
		})
		r.Probe("peer_lost_intermediate_certificates")
	}
	var bundles []types.BlockBundle
	P.Do(func() { bundles = P.Chain.ReadBlockForForkedPeer(hashes) })
	if len(bundles) == 0 {
		r.Probe("peer_offers_no_fork")
		return
	}
	// ---- Byzantine peer ----
	wire := make([]protocol.VerifRangeBlock, 0, len(bundles))
	for _, b := range bundles {
		wire = append(wire, protocol.VerifRangeBlock{Header: b.Block.Header, Cert: b.Cert})
	}
	tampered := "" // what makes the fork invalid or uncertified, "" = honest
	tip := len(wire) - 1
	byz := 0
	if !purity {
		byz = r.Choose("c08.byz", 14)
	}
	switch byz {
	case 0, 1, 2, 3:
		// honest
	case 4:
		wire[tip].Cert = nil
		tampered = "tip-cert-nil"
	case 5:
		wire[tip].Cert = &types.BlockCert{}
		tampered = "tip-cert-empty-but-present"
	case 6:
		for i := range wire {
			wire[i].Cert = &types.BlockCert{}
		}
		tampered = "all-certs-empty-but-present"
	case 7:
		if c := wire[tip].Cert; c != nil && len(c.Signatures) > 0 {
			cp := *c
			cp.Signatures = cp.Signatures[:len(cp.Signatures)-1]
			wire[tip].Cert = &cp
			tampered = "tip-cert-one-signature-short"
		}
	case 8:
		if c := wire[tip].Cert; c != nil && len(c.Signatures) > 0 {
			cp := *c
			sg := *cp.Signatures[0]
			sg.Signature = flipBit(sg.Signature, 9)
			cp.Signatures = append([]*types.BlockCertSignature{&sg}, cp.Signatures[1:]...)
			wire[tip].Cert = &cp
			tampered = "tip-cert-forged-signature"
		}
	case 9:
		if tip > 0 && wire[tip-1].Cert != nil {
			wire[tip].Cert = wire[tip-1].Cert
			tampered = "tip-cert-of-another-block"
		}
	case 10:
		if c := wire[tip].Cert; c != nil && len(c.Signatures) > 0 {
			cp := *c
			for len(cp.Signatures) < 12 {
				cp.Signatures = append(cp.Signatures, cp.Signatures[0])
			}
			cp.Signatures = cp.Signatures[:0]
			cp.Signatures = append(cp.Signatures, c.Signatures[0], c.Signatures[0], c.Signatures[0], c.Signatures[0], c.Signatures[0])
			wire[tip].Cert = &cp
			tampered = "tip-cert-one-vote-repeated"
		}
	case 11:
		k := r.Choose("c08.badblock", len(wire))
		if ph := wire[k].Header.ProposedHeader; ph != nil {
			hc := *ph
			hc.Root = flipHash(hc.Root, 5)
			wire[k].Header = &types.Header{ProposedHeader: &hc}
			tampered = "block-root-altered"
		}
	case 12:
		if len(wire) > 1 {
			k := r.Choose("c08.dropblock", len(wire)-1)
			wire = append(wire[:k], wire[k+1:]...)
			tampered = "bundle-dropped"
		}
	case 13:
		if len(wire) > 1 {
			wire[0], wire[len(wire)-1] = wire[len(wire)-1], wire[0] // delivery order is not significant: the resolver sorts
			r.Probe("bundles_reordered")
		}
	}
	if tampered != "" {
		r.Fault("byzantine:" + tampered)
	}
	enc, err := protocol.VerifEncodeBlockRange(7, wire)
	if err != nil {
		r.Trouble("encode block range: %v", err)
	}
	// ---- the asking node ----
	before := victimDigest(L, addrs, true)
	ownHead := L.Chain.Head.Height()
	var perr, aerr error
	var reverted []*types.Transaction
	adopted := false
	var got []types.BlockBundle
	pv, st := L.Do(func() {
		_, blocks, valid, derr := protocol.VerifDecodeBlockRange(enc)
		if derr != nil || !valid {
			perr = fmt.Errorf("decode: %v valid=%v", derr, valid)
			return
		}
		for _, b := range blocks {
			blk := &types.Block{Header: b.Header, Body: &types.Body{}}
			if b.Header.ProposedHeader != nil {
				body, gerr := L.Ipfs.Get(b.Header.ProposedHeader.IpfsHash, ipfs.Block)
				if gerr != nil {
					perr = fmt.Errorf("body fetch: %v", gerr)
					return
				}
				blk.Body.FromBytes(body)
			}
			got = append(got, types.BlockBundle{Block: blk, Cert: b.Cert})
		}
		fr := consensus.VerifNewForkResolver(L.Chain)
		perr = fr.VerifProcessBlocks(got)
		if perr == nil && fr.HasLoadedFork() {
			reverted, aerr = fr.ApplyFork()
			adopted = aerr == nil
		}
	})
	if pv != nil {
		r.Violate("C08:fork-processing-panicked", "%v\n%s", pv, st)
	}
	if purity {
		c01ForkVerdict(r, s, L, P, got, perr, aerr, adopted)
		return
	}
	r.Logf("fork offer: own=%d blocks theirs=%d bundles=%d byz=%q -> processErr=%v applyErr=%v adopted=%v", len(own.blocks), len(theirs.blocks), len(wire), tampered, perr, aerr, adopted)
	if aerr != nil {
		r.Probe("apply_fork_failed_midway")
		r.Note("ApplyFork failed after successful validation: %v (byz=%q)", aerr, tampered)
	}
	if !adopted && aerr == nil {
		after := victimDigest(L, addrs, true)
		if before != after {
			r.Violate("C08:refused-fork-left-side-effects", "byz=%q err=%v: before %s | after %s", tampered, perr, before, after)
		}
		if tampered == "" {
			r.Probe("honest_fork_refused(policy_or_other)")
			r.Probe("honest_refusal:" + refusalReason(perr))
		} else {
			r.Probe("tampered_fork_refused")
		}
		r.Case(r.W.Fingerprint(), tampered != "")
		c08sample(r, s, own, theirs, tampered, adopted, perr)
		return
	}
	if !adopted {
		c08sample(r, s, own, theirs, tampered, adopted, aerr)
		return
	}
	r.Probe("fork_adopted")
	sort.SliceStable(got, func(i, j int) bool { return got[i].Block.Height() < got[j].Block.Height() })
	// ---- adoption oracle ----
	// (1) every adopted block is one the peer itself holds as valid canonical block; (2) the tip is certified
	tipB := got[len(got)-1]
	for _, b := range got {
		var ph common.Hash
		P.Do(func() {
			if hb := P.Chain.GetBlockHeaderByHeight(b.Block.Height()); hb != nil {
				ph = hb.Hash()
			}
		})
		if ph != b.Block.Hash() {
			r.Violate("C08:invalid-fork-adopted", "adopted block h=%d %x is not the peer's canonical block %x (byz=%q)", b.Block.Height(), b.Block.Hash().Bytes()[:6], ph.Bytes()[:6], tampered)
		}
	}
	// judge the tip certificate on a node whose state is the tip's parent: use the peer's read-only view is not enough
	// (committee needs the validators cache) -> roll a scratch replica? The asking node itself was at the parent state during
	// validation; the reference uses the peer's group-mate state by re-deriving from P: P.ForCheck(parent).
	var verdict oracle.CertVerdict
	P.Do(func() {
		parentH := tipB.Block.Height() - 1
		ps, e := P.App.ForCheck(parentH)
		prevHdr := P.Chain.GetBlockHeaderByHeight(parentH)
		if e != nil || prevHdr == nil {
			verdict = oracle.CertVerdict{Note: "parent state unavailable"}
			return
		}
		cert := tipB.Cert
		if cert == nil {
			verdict = oracle.CertVerdict{MustReject: true, Note: "nil"}
			return
		}
		vc := ps.ValidatorsCache
		final := cert.Step == types.Final
		cc := P.Cfg.Consensus
		sv := vc.GetOnlineValidators(prevHdr.Seed(), tipB.Block.Height(), cert.Step, P.Chain.GetCommitteeSize(vc, final))
		if sv == nil {
			verdict = oracle.CertVerdict{MustReject: true, Note: "no committee"}
			return
		}
		th := oracle.RefThreshold(vc.ValidatorsSize(), final, cc.CommitteePercent, cc.FinalCommitteePercent, cc.AgreementThreshold, cc.MaxCommitteeSize)
		verdict = oracle.RefCert(prevHdr.Hash(), tipB.Block.Hash(), tipB.Block.Height(), cert, sv.Original, sv.ApprovedValidators, th, cc.AgreementThreshold)
	})
	if verdict.MustReject {
		r.Violate("C08:uncertified-fork-adopted/"+orHonest(tampered), "node %d switched to a fork of %d blocks whose tip h=%d carries no quorum certificate (%d distinct eligible signers, %d needed; %s); byz=%q", L.ID, len(got), tipB.Block.Height(), verdict.Distinct, verdict.Need, verdict.Note, tampered)
	}
	// (3) afterwards the node is what a node that followed the fork would be
	tipH := tipB.Block.Height()
	if L.Chain.Head.Hash() != tipB.Block.Hash() {
		r.Violate("C08:head-after-adoption-is-not-the-fork-tip", "head %x h=%d, fork tip %x h=%d", L.Chain.Head.Hash().Bytes()[:6], L.Chain.Head.Height(), tipB.Block.Hash().Bytes()[:6], tipH)
	}
	var refRoot, refIdRoot common.Hash
	var refVc string
	refOK := false
	P.Do(func() {
		if P.Chain.Head.Height() == tipH {
			refRoot, refIdRoot = P.App.State.Root(), P.App.IdentityState.Root()
			refVc = oracle.ValidatorsText(P.App.ValidatorsCache, addrs)
			refOK = true
		} else if ro, e := P.App.Readonly(tipH); e == nil {
			refRoot, refIdRoot = ro.State.Root(), ro.IdentityState.Root()
			refVc = oracle.ValidatorsText(ro.ValidatorsCache, addrs)
			refOK = true
		}
	})
	if refOK {
		var lvc string
		L.Do(func() { lvc = oracle.ValidatorsText(L.App.ValidatorsCache, addrs) })
		if L.App.State.Root() != refRoot || L.App.IdentityState.Root() != refIdRoot {
			r.Violate("C08:state-after-adoption-differs-from-reference", "node %d roots %x/%x, reference %x/%x", L.ID, L.App.State.Root().Bytes()[:6], L.App.IdentityState.Root().Bytes()[:6], refRoot.Bytes()[:6], refIdRoot.Bytes()[:6])
		}
		if lvc != refVc {
			r.Violate("C08:validator-view-after-adoption-differs-from-reference", "%s", oracle.FirstTextDiff(lvc, refVc))
		}
	}
	for h := uint64(2); h <= tipH; h++ {
		var lh, ph common.Hash
		var ld, pd []byte
		L.Do(func() {
			if x := L.Chain.GetBlockHeaderByHeight(h); x != nil {
				lh = x.Hash()
			}
			if d := L.Chain.GetIdentityDiff(h); d != nil {
				ld, _ = d.ToBytes()
			}
		})
		P.Do(func() {
			if x := P.Chain.GetBlockHeaderByHeight(h); x != nil {
				ph = x.Hash()
			}
			if d := P.Chain.GetIdentityDiff(h); d != nil {
				pd, _ = d.ToBytes()
			}
		})
		if lh != ph {
			r.Violate("C08:canonical-hash-after-adoption-differs", "height %d: node %x reference %x", h, lh.Bytes()[:6], ph.Bytes()[:6])
		}
		if !bytes.Equal(ld, pd) {
			r.Violate("C08:stored-identity-diff-after-adoption-differs", "height %d (fork starts at %d): node serves diff %x, a node that followed the fork serves %x", h, ancestor+1, ld, pd)
		}
	}
	if L.Chain.Head.Height() < ownHead {
		for h := tipH + 1; h <= ownHead; h++ {
			var lh *types.Header
			L.Do(func() { lh = L.Chain.GetBlockHeaderByHeight(h) })
			if lh != nil {
				r.Violate("C08:abandoned-block-still-canonical", "height %d above the new head %d still resolves to %x", h, tipH, lh.Hash().Bytes()[:6])
			}
		}
	}
	// transaction lookups
	inFork := map[common.Hash]bool{}
	for _, b := range got {
		for _, tx := range b.Block.Body.Transactions {
			inFork[tx.Hash()] = true
			var ltx *types.Transaction
			L.Do(func() { ltx, _ = L.Chain.GetTx(tx.Hash()) })
			if ltx == nil {
				r.Violate("C08:fork-transaction-not-indexed-after-adoption", "tx %x of fork block %d cannot be looked up", tx.Hash().Bytes()[:6], b.Block.Height())
			}
		}
	}
	// reverted transactions = transactions of the abandoned blocks
	var wantRev, gotRev []string
	abandonedFrom := got[0].Block.Height()
	for _, b := range own.blocks {
		if b.Height() >= abandonedFrom {
			for _, tx := range b.Body.Transactions {
				wantRev = append(wantRev, tx.Hash().Hex())
			}
		}
	}
	for _, tx := range reverted {
		gotRev = append(gotRev, tx.Hash().Hex())
	}
	sort.Strings(wantRev)
	sort.Strings(gotRev)
	if fmt.Sprint(wantRev) != fmt.Sprint(gotRev) {
		r.Violate("C08:reverted-transactions-differ-from-abandoned-blocks", "abandoned blocks from h=%d carried %d txs %v, handed back %d %v", abandonedFrom, len(wantRev), wantRev, len(gotRev), gotRev)
	}
	for _, tx := range own.txs {
		if inFork[tx.Hash()] {
			continue
		}
		var ltx *types.Transaction
		L.Do(func() { ltx, _ = L.Chain.GetTx(tx.Hash()) })
		if ltx != nil {
			var idx *types.TransactionIndex
			L.Do(func() { _, idx = L.Chain.GetTx(tx.Hash()) })
			var hb *types.Header
			if idx != nil {
				P.Do(func() {})
				L.Do(func() { hb = L.Chain.VerifRepo().ReadBlockHeader(idx.BlockHash) })
			}
			if hb != nil && hb.Height() >= abandonedFrom {
				r.Violate("C08:abandoned-transaction-still-served-as-included", "tx %x of an abandoned block (h=%d) is still returned as mined", tx.Hash().Bytes()[:6], hb.Height())
			}
		}
	}
	if len(wantRev) > 0 {
		r.Probe("adoption_reverted_transactions")
	}
	// ... and handed back FOR RE-INCLUSION: in an order in which a pool can take them, i.e. every sender's transactions
	// in the order of their nonces (oldest abandoned block first). (A first version of this oracle re-offered them to
	// the node's pool and demanded that the block builder's candidate list contain every one that was still valid; it
	// fired on the unchanged tree, because whether a pool offers a transaction at once also depends on what else it
	// holds - more than the property states.)
	if adopted {
		last := map[common.Address][2]uint32{}
		for _, tx := range reverted {
			snd, _ := types.Sender(tx)
			cur := [2]uint32{uint32(tx.Epoch), tx.AccountNonce}
			if prev, ok := last[snd]; ok && (cur[0] < prev[0] || cur[0] == prev[0] && cur[1] < prev[1]) {
				r.Violate("C08:reverted-transactions-handed-back-out-of-order", "sender %x: transaction with epoch/nonce %d/%d is handed back after %d/%d (%d transactions handed back): a pool fed in this order queues or refuses the later ones", snd[:4], cur[0], cur[1], prev[0], prev[1], len(reverted))
			}
			last[snd] = cur
		}
		if len(reverted) > 1 {
			r.Probe("reverted_transactions_order_checked")
		}
	}
	r.Case(r.W.Fingerprint(), true)
	c08sample(r, s, own, theirs, tampered, adopted, nil)
}

func orHonest(s string) string {
	if s == "" {
		return "honest-bundles"
	}
	return s
}

func c08sample(r *vfw.Run, s *scen.Scn, own, theirs *branch, tampered string, adopted bool, err error) {
	if r.Sample == nil {
		r.Sample = map[string]interface{}{"identities": len(s.Ids), "own_branch_blocks": len(own.blocks), "peer_branch_blocks": len(theirs.blocks), "byzantine_operator": tampered, "adopted": adopted, "error": fmt.Sprint(err), "trace_tail": tail(r.W.Trace, 6)}
	}
}

var reHexNum = regexp.MustCompile(`0x[0-9a-fA-F]+|[0-9a-fA-F]{8,}|[0-9]+`)

// refusalReason reduces a fork resolver error to its kind (numbers, hashes and addresses removed).
func refusalReason(err error) string {
	if err == nil {
		return "none"
	}
	t := err.Error()
	if i := strings.Index(t, "err="); i >= 0 {
		t = t[i+4:]
	}
	t = reHexNum.ReplaceAllString(t, "#")
	if len(t) > 60 {
		t = t[:60]
	}
	return t
}

// c01ForkVerdict is the C01 oracle of the fork scenario (see forkScenario).
func c01ForkVerdict(r *vfw.Run, s *scen.Scn, L, P *simnode.Node, got []types.BlockBundle, perr, aerr error, adopted bool) {
	r.Logf("honest fork offer: %d bundles -> processErr=%v applyErr=%v adopted=%v", len(got), perr, aerr, adopted)
	validated := perr == nil && (adopted || aerr != nil)
	if perr != nil && strings.Contains(perr.Error(), "unacceptable fork") && len(got) > 0 {
		// the resolver's own validation refused: find the block and whether it is the block's validation (and not a
		// certificate) that fails - the same loop without the certificate checks
		validated = true
		sort.SliceStable(got, func(i, j int) bool { return got[i].Block.Height() < got[j].Block.Height() })
		var idx int
		var st *appstate.AppState
		var terr error
		pv, stk := L.Do(func() { idx, st, terr = L.Chain.VerifSubChainTrace(got[0].Block.Height()-1, got) })
		if pv != nil {
			r.Violate("C01:validation-panicked", "speculative validation of an honest fork: %v\n%s", pv, stk)
		}
		if terr != nil && idx >= 0 && idx < len(got) {
			b := got[idx].Block
			diff := ""
			P.Do(func() {
				if ps, e := P.App.Readonly(b.Height()); e == nil {
					diff = scen.DiffStates(st, ps)
				} else {
					diff = " (peer's state at that height: " + e.Error() + ")"
				}
			})
			r.Violate("C01:fork-context-recomputes-different-result", "node %d (head h=%d) validating the honest branch of node %d on top of the common ancestor h=%d rejects block h=%d (%d txs, flags %b), which node %d's side validated and applied at its head: %v; network size at the validating node's head %d, in its speculative state %d; its speculative state (A) vs the peer's committed state (B):%s",
				L.ID, L.Chain.Head.Height(), P.ID, got[0].Block.Height()-1, b.Height(), len(b.Body.Transactions), b.Header.Flags(), P.ID, terr, L.App.ValidatorsCache.NetworkSize(), st.ValidatorsCache.NetworkSize(), diff)
		}
		r.Probe("fork_refused_for_certificate_reason")
	}
	if adopted {
		h := L.Chain.Head.Height()
		if P.Chain.Head.Height() == h {
			if a, b := c01Observables(P, h), c01Observables(L, h); a != b {
				r.Violate("C01:replicas-differ-after-same-block", "node %d, which switched to the branch of node %d, differs from it at the same head h=%d: %s", L.ID, P.ID, h, oracle.FirstTextDiff(a, b))
			}
		}
		r.Probe("fork_adopted")
	}
	r.Fault("validated_on_common_ancestor_with_head_elsewhere")
	r.Case(r.W.Fingerprint(), validated)
	if r.Sample == nil {
		r.Sample = map[string]interface{}{"scenario": "fork context", "bundles": len(got), "adopted": adopted, "error": fmt.Sprint(perr), "trace_tail": tail(r.W.Trace, 6)}
	}
}
