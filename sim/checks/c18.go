package checks

import (
	"bytes"
	"encoding/json"
	"fmt"
	"math/big"
	"os"
	"reflect"
	"sort"
	"strings"
	"time"

	"github.com/idena-network/idena-go/blockchain/attachments"
	"github.com/idena-network/idena-go/blockchain/types"
	"github.com/idena-network/idena-go/common"
	"github.com/idena-network/idena-go/core/flip"
	"github.com/idena-network/idena-go/core/state"
	"github.com/idena-network/idena-go/core/state/snapshot"
	"github.com/idena-network/idena-go/crypto"
	"github.com/idena-network/idena-go/protocol"

	"verif/sim/scen"
	"verif/sim/vfw"
)

func init() {
	vfw.Register(&vfw.Check{
		ID:    "C18",
		Level: "exploration",
		Rule: "two kinds of case. (a) values: for each of the ~50 wire and storage types a tape-drawn value (zero / nil optionals, maximal integers, empty and long byte strings, nested lists) is encoded, decoded and re-encoded; then every exported leaf field is changed in turn and the encoding (and, for signed types, the recovered signer) must change; " +
			"(b) seam taps: everything a short simulated ledger run with contracts produces - blocks, transactions, certificates, receipts, identity diffs and every raw value of the state and identity trees on the simulated disk - is decoded and re-encoded; non-trivial = a value with >= 3 non-zero leaf fields / a run with >= 1 block with transactions; distinct by type and drawn shape",
		Real:         []string{"blockchain/types codecs and signing helpers", "core/state state_object.go codecs", "core/state/snapshot.Manifest", "blockchain/attachments", "protocol wire types", "core/flip.IpfsFlip", "crypto signature recovery"},
		Stub:         []string{"nothing is stubbed in (a); (b) uses the ledger scenario's stubs (round driver, simipfs, simdisk)"},
		Assumptions:  []string{"low-leverage use of the technique, stated as such: the quantifier is over inputs; the simulator contributes only the in-context values of part (b)", "exported fields that are not part of an encoding (or not covered by a signature) on the pinned tree are listed in /verif/c18_baseline.json; a field that STOPS being encoded or signed is a violation, a listed one is not", "whether every behaviour-relevant field is encoded is not decided here (a restarted replica losing such a field shows up as a C01/C09 divergence)"},
		QuickSecs:    45,
		ThoroughSecs: 600,
		MaxChoices:   400000,
		Run:          runC18,
	})
}

type c18Baseline struct {
	Unencoded []string `json:"unencoded"`
	Unsigned  []string `json:"unsigned"`
}

var c18base *c18Baseline
var c18learn = os.Getenv("VERIF_C18_LEARN") != ""

func c18LoadBaseline() *c18Baseline {
	if c18base != nil {
		return c18base
	}
	c18base = &c18Baseline{}
	if b, err := os.ReadFile("/verif/c18_baseline.json"); err == nil {
		json.Unmarshal(b, c18base)
	}
	return c18base
}

func c18Listed(list []string, key string) bool {
	for _, x := range list {
		if x == key {
			return true
		}
	}
	return false
}

// ---- reflection helpers ----

var (
	tBig  = reflect.TypeOf(&big.Int{})
	tTime = reflect.TypeOf(time.Time{})
)

type c18filler struct {
	r      *vfw.Run
	filled int
	depth  int
}

func (f *c18filler) ch(kind string, n int) int { return f.r.Choose("c18."+kind, n) }

func (f *c18filler) bytes(n int) []byte {
	b := make([]byte, n)
	for i := range b {
		b[i] = byte(1 + f.ch("byte", 255))
	}
	return b
}

func (f *c18filler) fill(v reflect.Value) {
	if !v.CanSet() {
		return
	}
	t := v.Type()
	switch {
	case t == tBig:
		switch f.ch("big", 5) {
		case 0:
			v.Set(reflect.Zero(t))
		case 1:
			v.Set(reflect.ValueOf(big.NewInt(1)))
			f.filled++
		case 2:
			v.Set(reflect.ValueOf(new(big.Int).Sub(new(big.Int).Lsh(big.NewInt(1), 256), big.NewInt(1))))
			f.filled++
		default:
			v.Set(reflect.ValueOf(new(big.Int).SetBytes(f.bytes(1 + f.ch("biglen", 20)))))
			f.filled++
		}
		return
	case t == tTime:
		v.Set(reflect.ValueOf(time.Unix(int64(1+f.ch("time", 1<<30)), 0).UTC()))
		f.filled++
		return
	}
	switch t.Kind() {
	case reflect.Bool:
		v.SetBool(f.ch("bool", 2) == 1)
	case reflect.Uint8, reflect.Uint16, reflect.Uint32, reflect.Uint64, reflect.Uint:
		max := uint64(1)<<uint(t.Bits()) - 1
		if t.Bits() == 64 {
			max = ^uint64(0)
		}
		switch f.ch("uint", 4) {
		case 0:
			v.SetUint(0)
		case 1:
			v.SetUint(1)
			f.filled++
		case 2:
			v.SetUint(max)
			f.filled++
		default:
			v.SetUint(uint64(f.ch("uintv", 1<<30)) % (max/2 + 1))
			f.filled++
		}
	case reflect.Int8, reflect.Int16, reflect.Int32, reflect.Int64, reflect.Int:
		v.SetInt(int64(f.ch("int", 1<<20)))
		f.filled++
	case reflect.Float32, reflect.Float64:
		v.SetFloat(float64(f.ch("float", 1000)) / 8)
		f.filled++
	case reflect.String:
		v.SetString(string(f.bytes([]int{0, 1, 7, 40}[f.ch("strlen", 4)])))
	case reflect.Array:
		if t.Elem().Kind() == reflect.Uint8 {
			if f.ch("arrayzero", 4) != 0 {
				reflect.Copy(v, reflect.ValueOf(f.bytes(t.Len())))
				f.filled++
			}
		}
	case reflect.Slice:
		if t.Elem().Kind() == reflect.Uint8 {
			switch f.ch("bytes", 5) {
			case 0:
				v.Set(reflect.Zero(t))
			case 1:
				v.SetBytes([]byte{})
			default:
				v.SetBytes(f.bytes([]int{1, 20, 32, 65, 300}[f.ch("byteslen", 5)]))
				f.filled++
			}
			return
		}
		n := f.ch("slicelen", 4)
		if f.depth > 3 {
			n = 0
		}
		s := reflect.MakeSlice(t, n, n)
		f.depth++
		for i := 0; i < n; i++ {
			if t.Elem().Kind() == reflect.Ptr {
				e := reflect.New(t.Elem().Elem())
				f.fillStruct(e.Elem())
				s.Index(i).Set(e)
			} else {
				f.fill(s.Index(i))
			}
		}
		f.depth--
		if n == 0 && f.ch("slicenil", 2) == 0 {
			v.Set(reflect.Zero(t))
		} else {
			v.Set(s)
		}
	case reflect.Map:
		n := f.ch("maplen", 5)
		if n == 0 || f.depth > 3 {
			v.Set(reflect.Zero(t))
			return
		}
		m := reflect.MakeMap(t)
		f.depth++
		for i := 0; i < n; i++ {
			k := reflect.New(t.Key()).Elem()
			f.fill(k)
			// distinct small keys
			switch k.Kind() {
			case reflect.Uint8, reflect.Uint16, reflect.Uint32, reflect.Uint64, reflect.Uint:
				k.SetUint(uint64(i + 1))
			case reflect.Int8, reflect.Int16, reflect.Int32, reflect.Int64, reflect.Int:
				k.SetInt(int64(i + 1))
			}
			e := reflect.New(t.Elem()).Elem()
			f.fill(e)
			m.SetMapIndex(k, e)
		}
		f.depth--
		v.Set(m)
		f.filled++
	case reflect.Ptr:
		if f.ch("ptrnil", 3) == 0 || f.depth > 4 {
			v.Set(reflect.Zero(t))
			return
		}
		e := reflect.New(t.Elem())
		f.depth++
		if t.Elem().Kind() == reflect.Struct {
			f.fillStruct(e.Elem())
		} else {
			f.fill(e.Elem())
		}
		f.depth--
		v.Set(e)
	case reflect.Struct:
		f.fillStruct(v)
	}
}

func (f *c18filler) fillStruct(v reflect.Value) {
	t := v.Type()
	if t == tTime {
		f.fill(v)
		return
	}
	for i := 0; i < t.NumField(); i++ {
		if t.Field(i).PkgPath != "" {
			continue // unexported (caches)
		}
		f.fill(v.Field(i))
	}
}

// leaves enumerates settable leaf fields (path, value).
func c18Leaves(v reflect.Value, path string, out *[]struct {
	path string
	v    reflect.Value
}) {
	t := v.Type()
	if t == tBig || t == tTime {
		*out = append(*out, struct {
			path string
			v    reflect.Value
		}{path, v})
		return
	}
	switch t.Kind() {
	case reflect.Struct:
		for i := 0; i < t.NumField(); i++ {
			if t.Field(i).PkgPath != "" {
				continue
			}
			c18Leaves(v.Field(i), path+"."+t.Field(i).Name, out)
		}
	case reflect.Ptr:
		if v.IsNil() {
			*out = append(*out, struct {
				path string
				v    reflect.Value
			}{path + "(nil)", v})
			return
		}
		c18Leaves(v.Elem(), path, out)
	case reflect.Slice:
		if t.Elem().Kind() == reflect.Uint8 {
			*out = append(*out, struct {
				path string
				v    reflect.Value
			}{path, v})
			return
		}
		if v.Len() > 0 {
			c18Leaves(v.Index(0), path+"[0]", out)
		}
	case reflect.Bool, reflect.Uint8, reflect.Uint16, reflect.Uint32, reflect.Uint64, reflect.Uint, reflect.Int8, reflect.Int16, reflect.Int32, reflect.Int64, reflect.Int, reflect.String, reflect.Array, reflect.Float32, reflect.Float64:
		*out = append(*out, struct {
			path string
			v    reflect.Value
		}{path, v})
	}
}

// c18Change sets a leaf to another value; returns a function that restores it (nil: cannot change).
func c18Change(v reflect.Value) func() {
	if !v.CanSet() {
		return nil
	}
	old := reflect.New(v.Type()).Elem()
	old.Set(v)
	restore := func() { v.Set(old) }
	t := v.Type()
	switch {
	case t == tBig:
		if v.IsNil() {
			v.Set(reflect.ValueOf(big.NewInt(77)))
		} else {
			v.Set(reflect.ValueOf(new(big.Int).Add(v.Interface().(*big.Int), big.NewInt(1))))
		}
		return restore
	case t == tTime:
		v.Set(reflect.ValueOf(v.Interface().(time.Time).Add(time.Hour)))
		return restore
	}
	switch t.Kind() {
	case reflect.Bool:
		v.SetBool(!v.Bool())
	case reflect.Uint8, reflect.Uint16, reflect.Uint32, reflect.Uint64, reflect.Uint:
		if v.Uint() == 0 {
			v.SetUint(1)
		} else {
			v.SetUint(v.Uint() - 1)
		}
	case reflect.Int8, reflect.Int16, reflect.Int32, reflect.Int64, reflect.Int:
		v.SetInt(v.Int() + 1)
	case reflect.Float32, reflect.Float64:
		v.SetFloat(v.Float() + 1)
	case reflect.String:
		v.SetString(v.String() + "x")
	case reflect.Array:
		if t.Elem().Kind() != reflect.Uint8 || t.Len() == 0 {
			return nil
		}
		b := v.Index(t.Len() - 1)
		b.SetUint(b.Uint() ^ 1)
	case reflect.Slice:
		b := append([]byte{}, v.Bytes()...)
		if len(b) == 0 {
			b = []byte{9}
		} else {
			b[len(b)-1] ^= 1
		}
		v.SetBytes(b)
	case reflect.Ptr:
		// nil pointer leaf: set it
		if !v.IsNil() {
			return nil
		}
		e := reflect.New(t.Elem())
		if t.Elem().Kind() == reflect.Array && t.Elem().Elem().Kind() == reflect.Uint8 {
			e.Elem().Index(0).SetUint(5)
		} else if t.Elem().Kind() != reflect.Struct {
			return nil
		} else {
			return nil // nested message absent: setting an empty one need not change the encoding
		}
		v.Set(e)
	default:
		return nil
	}
	return restore
}

// c18New: a fresh decode target of x's type (types whose zero value is not usable come from their constructor).
func c18New(x interface{}) interface{} {
	if _, ok := x.(*types.UpgradeVotes); ok {
		return types.NewUpgradeVotes()
	}
	return reflect.New(reflect.TypeOf(x).Elem()).Interface()
}

func c18Encode(x interface{}) (b []byte, ok bool) {
	defer func() {
		if recover() != nil {
			ok = false
		}
	}()
	m := reflect.ValueOf(x).MethodByName("ToBytes")
	if !m.IsValid() {
		return nil, false
	}
	out := m.Call(nil)
	if len(out) == 2 && !out[1].IsNil() {
		return nil, false
	}
	return out[0].Bytes(), true
}

func c18Decode(x interface{}, b []byte) (err error, panicked bool) {
	defer func() {
		if r := recover(); r != nil {
			panicked = true
			err = fmt.Errorf("%v", r)
		}
	}()
	out := reflect.ValueOf(x).MethodByName("FromBytes").Call([]reflect.Value{reflect.ValueOf(b)})
	if len(out) == 1 && !out[0].IsNil() {
		if e, isErr := out[0].Interface().(error); isErr {
			return e, false
		}
	}
	return nil, false
}

func c18Types() []interface{} {
	vals := []interface{}{
		new(types.Transaction), new(types.Header), new(types.Block), new(types.Body), new(types.Vote), new(types.BlockCert), new(types.ProofProposal), new(types.BlockProposal),
		new(types.PublicFlipKey), new(types.PrivateFlipKeysPackage), new(types.Flip), new(types.TxReceipt), new(types.SavedTransaction), new(types.ActivityMonitor), new(types.BurntCoins),
		new(types.SavedEvent), new(types.TransactionIndex), new(types.TxReceiptIndex), new(types.UpgradeVotes),
		new(state.Account), new(state.Identity), new(state.Global), new(state.ApprovedIdentity), new(state.IdentityStatusSwitch), new(state.DelegationSwitch), new(state.DelayedPenalties), new(state.BurntCoins), new(state.IdentityStateDiff),
		new(snapshot.Manifest), new(flip.IpfsFlip),
		new(attachments.ShortAnswerAttachment), new(attachments.LongAnswerAttachment), new(attachments.FlipSubmitAttachment), new(attachments.OnlineStatusAttachment), new(attachments.BurnAttachment), new(attachments.ChangeProfileAttachment),
		new(attachments.DeleteFlipAttachment), new(attachments.CallContractAttachment), new(attachments.DeployContractAttachment), new(attachments.TerminateContractAttachment), new(attachments.StoreToIpfsAttachment),
	}
	return append(vals, protocol.VerifCodecValues()...)
}

func typeName(x interface{}) string {
	t := reflect.TypeOf(x).Elem()
	p := t.PkgPath()
	if i := strings.LastIndex(p, "/"); i >= 0 {
		p = p[i+1:]
	}
	return p + "." + t.Name()
}

// c18RoundTrip: encode, decode into a fresh value, re-encode: identical bytes.
func c18RoundTrip(r *vfw.Run, x interface{}, what string) ([]byte, bool) {
	b1, ok := c18Encode(x)
	if !ok {
		r.Probe("value_not_encodable_skipped")
		return nil, false
	}
	// the same value encodes to the same bytes on a replica whose maps iterate in another order
	for _, seed := range []uint64{0x4242, 0x9191} {
		ctx := *r.W.CurCtx()
		ctx.MapSeed = seed
		var bo []byte
		var ok2 bool
		r.W.As(&ctx, func() { bo, ok2 = c18Encode(x) })
		if ok2 && !bytes.Equal(b1, bo) {
			r.Violate("C18:encoding-depends-on-map-order", "%s: two encodings of the same value differ: %x vs %x", what, c18clip(b1), c18clip(bo))
		}
	}
	y := c18New(x)
	if err, panicked := c18Decode(y, b1); err != nil {
		if panicked {
			r.Violate("C18:own-encoding-panics-decoder", "%s: %v (encoding %x)", what, err, b1)
		}
		r.Violate("C18:own-encoding-does-not-decode", "%s: %v (encoding %x)", what, err, b1)
	}
	b2, ok := c18Encode(y)
	if !ok {
		r.Violate("C18:decoded-value-does-not-re-encode", "%s (encoding %x)", what, b1)
	}
	if !bytes.Equal(b1, b2) {
		r.Violate("C18:re-encoding-differs", "%s: %d bytes -> decode -> %d bytes; first %x, second %x", what, len(b1), len(b2), c18clip(b1), c18clip(b2))
	}
	return b1, true
}

func c18clip(b []byte) []byte {
	if len(b) > 120 {
		return b[:120]
	}
	return b
}

var c18learned = map[string]bool{}

func c18Values(r *vfw.Run) {
	base := c18LoadBaseline()
	all := c18Types()
	n := 3 + r.Choose("c18.nvalues", 6)
	for k := 0; k < n; k++ {
		x := all[r.Choose("c18.type", len(all))]
		x = reflect.New(reflect.TypeOf(x).Elem()).Interface()
		name := typeName(x)
		if os.Getenv("C18DBG") != "" {
			fmt.Fprintf(os.Stderr, "DBG filling %s\n", name)
		}
		f := &c18filler{r: r}
		f.fillStruct(reflect.ValueOf(x).Elem())
		// counts that the encoder iterates over stay small (a state with 2^32 shards is not an object anybody holds)
		if g, ok := x.(*state.Global); ok {
			g.ShardsNum %= 6
		}
		// a header is either empty or proposed
		if h, ok := x.(*types.Header); ok && h.EmptyBlockHeader != nil && h.ProposedHeader != nil {
			h.EmptyBlockHeader = nil
		}
		if b, ok := x.(*types.Block); ok && b.Header != nil && b.Header.EmptyBlockHeader != nil && b.Header.ProposedHeader != nil {
			b.Header.ProposedHeader = nil
		}
		if os.Getenv("C18DBG") != "" {
			fmt.Fprintf(os.Stderr, "DBG filled %s\n", name)
		}
		what := fmt.Sprintf("%s %+v", name, x)
		if len(what) > 700 {
			what = what[:700] + "..."
		}
		if os.Getenv("C18DBG") != "" {
			fmt.Fprintf(os.Stderr, "DBG value %s\n", what)
		}
		b1, ok := c18RoundTrip(r, x, what)
		if !ok {
			continue
		}
		// every exported leaf is part of the encoding
		var leaves []struct {
			path string
			v    reflect.Value
		}
		c18Leaves(reflect.ValueOf(x).Elem(), "", &leaves)
		for _, lf := range leaves {
			restore := c18Change(lf.v)
			if restore == nil {
				continue
			}
			b3, ok := c18Encode(x)
			restore()
			key := name + strings.ReplaceAll(lf.path, "(nil)", "")
			if !ok {
				continue
			}
			if bytes.Equal(b1, b3) {
				if c18learn {
					c18learned["unencoded "+key] = true
					continue
				}
				if !c18Listed(base.Unencoded, key) {
					r.Violate("C18:field-not-part-of-the-encoding", "%s: changing %s does not change the encoding (%s)", name, lf.path, what)
				}
			} else {
				r.Probe("field_change_changes_encoding")
			}
		}
		r.Case(fmt.Sprintf("a/%s/%d/%x", name, f.filled, crypto.Keccak256(b1)[:4]), f.filled >= 3)
		c18Signed(r, x, name, base)
	}
}

// c18Signed: for signed types, a change of any field keeps the signature from recovering the signer.
func c18Signed(r *vfw.Run, x interface{}, name string, base *c18Baseline) {
	key := scen.KeyFor("c18-signer", 1)
	signer := crypto.PubkeyToAddress(key.PublicKey)
	sign := func(o interface{}) bool {
		switch v := o.(type) {
		case *types.Transaction:
			v.Signature = nil
			v.UseRlp = false // SignTx signs the protobuf form (legacy RLP-signed transactions come from external clients only)
			s, err := types.SignTx(v, key)
			if err != nil {
				return false
			}
			v.Signature = s.Signature
		case *types.Vote:
			if v.Header == nil {
				return false
			}
			h := crypto.SignatureHash(v)
			v.Signature, _ = crypto.Sign(h[:], key)
		case *types.ProofProposal:
			h := crypto.SignatureHash(v)
			v.Signature, _ = crypto.Sign(h[:], key)
		case *types.BlockProposal:
			if v.Block == nil || v.Block.Header == nil || v.Block.Body == nil {
				return false
			}
			h := crypto.SignatureHash(v)
			v.Signature, _ = crypto.Sign(h[:], key)
		case *types.PublicFlipKey:
			s, err := types.SignFlipKey(v, key)
			if err != nil {
				return false
			}
			v.Signature = s.Signature
		case *types.PrivateFlipKeysPackage:
			s, err := types.SignFlipKeysPackage(v, key)
			if err != nil {
				return false
			}
			v.Signature = s.Signature
		default:
			return false
		}
		return true
	}
	recoverSigner := func(o interface{}) (a common.Address, ok bool) {
		defer func() {
			if recover() != nil {
				ok = false
			}
		}()
		switch v := o.(type) {
		case *types.Transaction:
			a, err := types.Sender(v)
			return a, err == nil
		case *types.Vote:
			return v.VoterAddr(), true
		case *types.ProofProposal:
			pk, err := types.ProofProposalPubKey(v)
			if err != nil {
				return a, false
			}
			a, err = crypto.PubKeyBytesToAddress(pk)
			return a, err == nil
		case *types.BlockProposal:
			pk, err := types.BlockProposalPubKey(v)
			if err != nil {
				return a, false
			}
			a, err = crypto.PubKeyBytesToAddress(pk)
			return a, err == nil
		case *types.PublicFlipKey:
			a, err := types.SenderFlipKey(v)
			return a, err == nil
		case *types.PrivateFlipKeysPackage:
			a, err := types.SenderFlipKeysPackage(v)
			return a, err == nil
		}
		return a, false
	}
	signed := false
	func() {
		defer func() { recover() }()
		signed = sign(x)
	}()
	if !signed {
		return
	}
	enc, ok := c18Encode(x)
	if !ok {
		return
	}
	fresh := func() interface{} {
		y := reflect.New(reflect.TypeOf(x).Elem()).Interface()
		c18Decode(y, enc)
		return y
	}
	if a, ok := recoverSigner(fresh()); !ok || a != signer {
		r.Violate("C18:own-signature-does-not-recover-signer", "%s: recovered %x ok=%v, signer %x; signed object %+v; after the wire %+v", name, a[:4], ok, signer[:4], x, fresh())
	}
	var leaves []struct {
		path string
		v    reflect.Value
	}
	probe := fresh()
	c18Leaves(reflect.ValueOf(probe).Elem(), "", &leaves)
	for i := range leaves {
		y := fresh()
		var ls []struct {
			path string
			v    reflect.Value
		}
		c18Leaves(reflect.ValueOf(y).Elem(), "", &ls)
		if i >= len(ls) || ls[i].path != leaves[i].path || strings.HasSuffix(ls[i].path, ".Signature") {
			continue
		}
		if c18Change(ls[i].v) == nil {
			continue
		}
		// the changed object travels as bytes (fresh caches on the receiving side)
		b, ok := c18Encode(y)
		if !ok {
			continue
		}
		z := reflect.New(reflect.TypeOf(x).Elem()).Interface()
		if err, _ := c18Decode(z, b); err != nil {
			continue
		}
		a, ok := recoverSigner(z)
		k := name + strings.ReplaceAll(ls[i].path, "(nil)", "")
		if ok && a == signer {
			if c18learn {
				c18learned["unsigned "+k] = true
				continue
			}
			if !c18Listed(base.Unsigned, k) {
				r.Violate("C18:signature-does-not-bind-field", "%s: after changing %s the signature still recovers the signer", name, ls[i].path)
			}
		} else {
			r.Probe("field_change_breaks_signature")
		}
	}
	r.Probe("signed_value_checked:" + name)
}

// ---- (b) seam taps over a simulated ledger run ----

func c18Taps(r *vfw.Run) {
	o := scen.Opts{MinIdent: 3, MaxIdent: 10, CeremonySoon: true, Contracts: true}
	lr := newLedgerRun(r, o, 12, 20)
	s := lr.s
	defer s.Close()
	lr.l.Mix.Contracts = 3
	n0 := lr.nodes[0]
	withTxs := 0
	rt := func(x interface{}, what string) {
		c18RoundTrip(r, x, what)
		r.Probe("tapped:" + typeName(x))
	}
	lr.loop("", nil, func(rr *scen.RoundResult) {
		// what crossed the (simulated) network: the block and its parts, decoded by the receiver
		blk := new(types.Block)
		if err := blk.FromBytes(rr.Enc); err != nil {
			r.Violate("C18:own-encoding-does-not-decode", "block h=%d: %v", rr.Height, err)
		}
		rt(blk, fmt.Sprintf("block h=%d", rr.Height))
		if blk.Hash() != rr.Block.Hash() {
			r.Violate("C18:hash-changes-across-the-wire", "block h=%d: sender %x receiver %x", rr.Height, rr.Block.Hash().Bytes()[:6], blk.Hash().Bytes()[:6])
		}
		rt(blk.Header, "header")
		for _, tx := range blk.Body.Transactions {
			rt(tx, fmt.Sprintf("tx type %d in block %d", tx.Type, rr.Height))
			b, _ := tx.ToBytes()
			c := new(types.Transaction)
			c.FromBytes(b)
			if c.Hash() != tx.Hash() {
				r.Violate("C18:hash-changes-across-the-wire", "tx %x", tx.Hash().Bytes()[:6])
			}
			s1, _ := types.Sender(tx)
			s2, _ := types.Sender(c)
			if s1 != s2 {
				r.Violate("C18:signer-changes-across-the-wire", "tx %x: %x vs %x", tx.Hash().Bytes()[:6], s1[:4], s2[:4])
			}
		}
		if len(blk.Body.Transactions) > 0 {
			withTxs++
		}
		// what was written to the (simulated) disk
		n0.Do(func() {
			if c := n0.Chain.GetCertificate(rr.Block.Hash()); c != nil {
				rt(c, "stored certificate")
			}
			if d := n0.Chain.GetIdentityDiff(rr.Height); d != nil {
				rt(d, "stored identity diff")
			}
			for _, tx := range blk.Body.Transactions {
				if rc := n0.Chain.GetReceipt(tx.Hash()); rc != nil {
					rt(rc, "stored receipt")
				}
			}
		})
	})
	// every raw value of the committed trees decodes and re-encodes to the same bytes
	n0.Do(func() {
		for _, kv := range n0.App.State.VerifDump() {
			k, v := kv[0], kv[1]
			if len(k) == 0 {
				continue
			}
			var x interface{}
			switch k[0] {
			case 0x1:
				x = new(state.Account)
			case 0x2:
				x = new(state.Identity)
			case 0x3:
				x = new(state.Global)
			case 0x4, 0xA:
				x = new(state.IdentityStatusSwitch)
			case 0x6:
				x = new(state.DelegationSwitch)
			case 0x7:
				x = new(state.DelayedPenalties)
			case 0x8:
				x = new(state.BurntCoins)
			default:
				continue // contract store and code: raw bytes
			}
			if err, _ := c18Decode(x, v); err != nil {
				r.Violate("C18:stored-value-does-not-decode", "state key %x: %v", k, err)
			}
			b2, ok := c18Encode(x)
			if !ok || !bytes.Equal(b2, v) {
				r.Violate("C18:stored-value-re-encodes-differently", "state key %x (%s): stored %x, re-encoded %x", k, typeName(x), c18clip(v), c18clip(b2))
			}
			r.Probe("state_value_tapped:" + typeName(x))
		}
		for _, kv := range n0.App.IdentityState.VerifDump() {
			x := new(state.ApprovedIdentity)
			if err, _ := c18Decode(x, kv[1]); err != nil {
				r.Violate("C18:stored-value-does-not-decode", "identity-state key %x: %v", kv[0], err)
			}
			b2, ok := c18Encode(x)
			if !ok || !bytes.Equal(b2, kv[1]) {
				r.Violate("C18:stored-value-re-encodes-differently", "identity-state key %x: stored %x, re-encoded %x", kv[0], c18clip(kv[1]), c18clip(b2))
			}
			r.Probe("state_value_tapped:state.ApprovedIdentity")
		}
	})
	r.Case("b/"+r.W.Fingerprint(), withTxs >= 1)
	lr.sample(map[string]interface{}{"kind": "seam taps over a ledger run", "blocks_with_transactions": withTxs})
}

func runC18(r *vfw.Run) {
	if r.Choose("c18.kind", 4) == 0 {
		c18Taps(r)
		return
	}
	c18Values(r)
	if c18learn {
		var ks []string
		for k := range c18learned {
			ks = append(ks, k)
		}
		sort.Strings(ks)
		os.WriteFile(fmt.Sprintf("/tmp/c18_learn_%d.txt", os.Getpid()), []byte(strings.Join(ks, "\n")+"\n"), 0644)
	}
}
