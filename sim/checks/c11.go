package checks

import (
	"bytes"
	"fmt"
	"strings"

	"github.com/idena-network/idena-go/blockchain/types"
	"github.com/idena-network/idena-go/common"
	"github.com/idena-network/idena-go/core/state"
	"github.com/idena-network/idena-go/core/state/snapshot"
	"github.com/idena-network/idena-go/protocol"
	"github.com/ipfs/go-cid"

	"verif/sim/scen"
	"verif/sim/seamrt"
	"verif/sim/simdisk"
	"verif/sim/simipfs"
	"verif/sim/simnode"
	"verif/sim/vfw"
)

func init() {
	vfw.Register(&vfw.Check{
		ID:    "C11",
		Level: "exploration",
		Rule: "one case = one simulated ledger run (with rollbacks) followed by a late joiner that fast-syncs from a peer: (a) on every replica, for every retained canonical height, the stored identity diff is replayed with the real AddDiff on the previous identity state and compared with the header's identity root; " +
			"(b) the peer publishes a state snapshot with its own snapshot manager, the joiner runs the real fastSync steps (preConsuming, validateHeader, applyDeferredBlocks/validateIdentityState, postConsuming = download + RecoverSnapshot2 + AtomicSwitchToPreliminary) on BlocksRange bytes; the Byzantine provider corrupts the archive (byte flips at drawn offsets, truncation, appended garbage, block reordering) or the served diffs/certificates; " +
			"non-trivial = >= 1 non-empty identity diff was replayed and the joiner attempted the snapshot import; distinct by history fingerprint",
		Real:         append(append([]string{}, realLedger...), "protocol.fastSync (preConsuming, validateHeader, validateIdentityState, applyDeferredBlocks, postConsuming)", "state.SnapshotManager (createSnapshot, DownloadSnapshot)", "state.WriteTreeTo2 / ReadTreeFrom2", "Blockchain.AtomicSwitchToPreliminary", "IdentityStateDB.AddDiff / CreatePreliminaryCopy / SwitchToPreliminary"),
		Stub:         append(append([]string{}, stubLedger...), "fast-sync batch loop and peer selection (the harness moves BlocksRange bytes)", "content addressing of the downloaded archive (kubo would verify the CID; the simulated provider may lie)"),
		Assumptions:  []string{"a refused import must leave the target key range of the store empty and the node's previous head and state untouched", "archives are small (hundreds of tree nodes): the 10 000-node block boundary of the exporter is not crossed"},
		QuickSecs:    60,
		ThoroughSecs: 1200,
		MaxChoices:   300000,
		Run:          runC11,
	})
}

// replayDiffs checks clause (a) on node n for all retained heights.
func replayDiffs(r *vfw.Run, n *simnode.Node, when string) (replayed, nonEmpty int) {
	head := n.Chain.Head.Height()
	n.Do(func() {
		for h := uint64(2); h <= head; h++ {
			hdr := n.Chain.GetBlockHeaderByHeight(h)
			if hdr == nil {
				r.Violate("C11:canonical-header-missing", "%s: node %d has no canonical header at %d (head %d)", when, n.ID, h, head)
			}
			prev, err := n.App.IdentityState.ForCheck(h - 1)
			if err != nil {
				continue // height below the retained window
			}
			diff := n.Chain.GetIdentityDiff(h)
			if diff == nil {
				diff = new(state.IdentityStateDiff)
			} else {
				nonEmpty++
			}
			prev.AddDiff(h, diff)
			replayed++
			if prev.Root() != hdr.IdentityRoot() {
				b, _ := diff.ToBytes()
				r.Violate("C11:stored-diff-does-not-reproduce-identity-root", "%s: node %d height %d: replaying the stored diff (%d bytes: %x) on identity state %d gives %x, header says %x", when, n.ID, h, len(b), b, h-1, prev.Root().Bytes()[:8], hdr.IdentityRoot().Bytes()[:8])
			}
		}
	})
	return
}

func hasPrefixKeys(n *simnode.Node, prefix []byte) int {
	c := 0
	for _, kv := range n.Disk.Dump() {
		if bytes.HasPrefix(kv[0], prefix) {
			c++
		}
	}
	return c
}

func runC11(r *vfw.Run) {
	r.W.GoPolicy = func(site string) seamrt.GoPolicy {
		if strings.HasPrefix(site, "core/state/manager.go") {
			return seamrt.GoTask
		}
		return seamrt.GoNever
	}
	o := scen.Opts{MinIdent: 3, MaxIdent: 16, CeremonySoon: r.Choose("c11.ceremony", 2) == 0, SmallShards: true}
	// some runs over a large state: the snapshot archive then has several blocks (the archive is written in blocks of
	// 10000 tree nodes, and the importer flushes to the database every 10000 nodes)
	bigEvery := 8
	if r.Tier == "thorough" {
		bigEvery = 4
	}
	if r.Choose("c11.bigstate", bigEvery) == 0 {
		o.BulkAccounts = 5200 + r.Choose("c11.bulk", 4)*1500
		r.Probe("large_state_run")
	}
	lr := newLedgerRun(r, o, 18, 30)
	s := lr.s
	defer s.Close()
	lr.l.Mix.Adversarial = 10
	// header sync cannot learn a changed god address (it is part of the state, not of the identity diffs), so while nobody is
	// online a joiner cannot verify certificates signed by a new god: keep most runs free of god changes
	lr.l.Mix.NoGodChange = r.Choose("c11.godchanges", 4) != 0
	// small snapshot range so that snapshot blocks occur
	nodes := lr.nodes
	P := nodes[0]
	snapshots := 0
	var manifests []*snapshot.Manifest
	lr.loop("", nil, func(rr *scen.RoundResult) {
		if rr.Flags.HasFlag(types.Snapshot) {
			for _, n := range nodes {
				n.Do(func() { n.SM.VerifCreateSnapshot(rr.Height) })
			}
			P.Do(func() {
				if m := P.Chain.ReadSnapshotManifest(); m != nil && (len(manifests) == 0 || manifests[len(manifests)-1].Height != m.Height) {
					manifests = append(manifests, m)
				}
			})
			snapshots++
			r.Probe("snapshot_published")
		}
		// histories with rollbacks (same-chain re-application)
		if len(nodes) > 1 && rr.Height > 4 && r.Choose("c11.rollback", 7) == 0 {
			v := nodes[1+r.Choose("c11.which", len(nodes)-1)]
			d := uint64(1 + r.Choose("c11.depth", 3))
			var rerr error
			v.Do(func() { _, rerr = v.Chain.ResetTo(rr.Height - d) })
			if rerr == nil {
				for h := rr.Height - d + 1; h <= rr.Height; h++ {
					s.Insert(v, lr.encs[h])
				}
				r.Fault("rollback_and_reapply")
			}
		}
	})
	totalNonEmpty := 0
	for _, n := range nodes {
		_, ne := replayDiffs(r, n, "after the run")
		totalNonEmpty += ne
	}
	// ---- (b) late joiner ----
	var manifest *snapshot.Manifest
	P.Do(func() { manifest = P.Chain.ReadSnapshotManifest() })
	attempted := false
	if manifest != nil && manifest.Height > 2 && manifest.Height <= P.Chain.Head.Height() {
		var older *snapshot.Manifest
		for _, m := range manifests {
			if m.Height < manifest.Height {
				older = m
			}
		}
		attempted = c11Join(r, lr, P, manifest, older)
	} else {
		r.Probe("no_snapshot_manifest_in_run")
	}
	r.Case(r.W.Fingerprint(), totalNonEmpty > 0 && attempted)
	lr.sample(map[string]interface{}{"non_empty_diffs_replayed": totalNonEmpty, "snapshots_published": snapshots, "joiner_attempted_import": attempted})
}

func c11Join(r *vfw.Run, lr *ledgerRun, P *simnode.Node, manifest *snapshot.Manifest, older *snapshot.Manifest) bool {
	s := lr.s
	joinerKey := scen.NewIdent("joiner", 1)
	J := simnode.New(s.W, 50, joinerKey.Key, s.Cfg, simdisk.New(), s.Net.NewStore(), r.Dir)
	J.Epoch = s.ScriptedEpoch
	if err, pv, st := J.Start(); err != nil || pv != nil {
		r.Trouble("joiner start: %v %v\n%s", err, pv, st)
	}
	defer J.Stop()
	if J.Chain.Head.Hash() != P.Chain.GetBlockHeaderByHeight(1).Hash() {
		r.Trouble("joiner genesis differs")
	}
	// Byzantine provider
	byz := ""
	cidV2, _ := cid.Cast(manifest.CidV2)
	kind := r.Choose("c11.byz", 14)
	arg := r.Choose("c11.byzarg", 1<<16)
	s.Net.Mutate = func(to *simipfs.Store, c cid.Cid, data []byte) []byte {
		if to != J.Ipfs || c != cidV2 || len(data) == 0 {
			return data
		}
		switch kind {
		case 4:
			byz = "archive-byte-flip"
			data[int(uint64(arg)*uint64(len(data))>>16)%len(data)] ^= byte(1 << uint(arg%8))
		case 5:
			byz = "archive-byte-flip-in-first-block"
			off := 512 + arg%imin(len(data)-512, 2048)
			if off < len(data) {
				data[off] ^= 0x40
			}
		case 6:
			byz = "archive-truncated"
			data = data[:int(uint64(arg)*uint64(len(data))>>16)%len(data)]
		case 7:
			byz = "archive-truncated-at-512-boundary"
			data = data[:(int(uint64(arg)*uint64(len(data)/512+1)>>16)%(len(data)/512+1))*512]
		case 8:
			byz = "archive-trailing-garbage"
			data = append(data, bytes.Repeat([]byte{byte(arg)}, 1+arg%2000)...)
		case 9:
			byz = "archive-tar-header-flip"
			data[arg%imin(512, len(data))] ^= 0x01
		}
		return data
	}
	defer func() { s.Net.Mutate = nil }()
	diffTamper := kind == 10
	certDrop := kind == 11
	diffDrop := kind == 12
	offered := manifest
	if kind == 13 && older != nil {
		// the manifest is a gossip message: height of the newest snapshot, root and archive of an older one (a complete,
		// well-formed archive of ANOTHER state)
		offered = &snapshot.Manifest{Height: manifest.Height, Root: older.Root, CidV2: older.CidV2}
		byz = "manifest-with-root-and-archive-of-an-older-snapshot"
	}
	// the last block up to the manifest height that changes identities (withholding the diff of an earlier one is noticed
	// at the latest when the next diff no longer replays; the last one is only noticed if the block itself is checked)
	lastIU := uint64(0)
	P.Do(func() {
		for h := manifest.Height; h > 1; h-- {
			if d := P.Chain.GetIdentityDiff(h); d != nil && len(d.Values) > 0 {
				lastIU = h
				break
			}
		}
	})
	fs := protocol.VerifNewFastSync(J.Chain, J.Ipfs, J.App, offered, J.SM, J.Bus, J.Addr, J.KeyStore, J.SubMgr, J.Upg)
	before := fmt.Sprintf("head=%x root=%x idroot=%x", J.Chain.Head.Hash().Bytes()[:8], J.App.State.Root().Bytes()[:8], J.App.IdentityState.Root().Bytes()[:8])
	var from uint64
	var err error
	var feedErr, postErr error
	pv, st := J.Do(func() {
		from, err = fs.PreConsuming(J.Chain.Head)
		if err != nil {
			return
		}
		// serve [from .. manifest.Height] in batches, as BlocksRange bytes
		for lo := from; lo <= manifest.Height && feedErr == nil; lo += 7 {
			hi := lo + 6
			if hi > manifest.Height {
				hi = manifest.Height
			}
			var wire []protocol.VerifRangeBlock
			P.W.As(P.Ctx, func() {
				for h := lo; h <= hi; h++ {
					hd := P.Chain.GetBlockHeaderByHeight(h)
					wire = append(wire, protocol.VerifRangeBlock{Header: hd, Cert: P.Chain.GetCertificate(hd.Hash()), IdentityDiff: P.Chain.GetIdentityDiff(h)})
				}
			})
			for i := range wire {
				if diffTamper && wire[i].IdentityDiff != nil && len(wire[i].IdentityDiff.Values) > 0 && byz == "" {
					d := *wire[i].IdentityDiff
					vals := append([]*state.IdentityStateDiffValue{}, d.Values...)
					v0 := *vals[0]
					v0.Deleted = !v0.Deleted
					vals[0] = &v0
					d.Values = vals
					wire[i].IdentityDiff = &d
					byz = "served-diff-altered"
				}
				if diffDrop && wire[i].Header.Height() == lastIU && wire[i].IdentityDiff != nil && len(wire[i].IdentityDiff.Values) > 0 && byz == "" {
					wire[i].IdentityDiff = nil
					byz = "diff-of-identity-update-block-withheld"
				}
				if certDrop && wire[i].Header.Flags().HasFlag(types.IdentityUpdate) && byz == "" {
					wire[i].Cert = nil
					byz = "certificate-of-identity-update-block-withheld"
				}
			}
			enc, e := protocol.VerifEncodeBlockRange(1, wire)
			if e != nil {
				r.Trouble("encode range: %v", e)
			}
			_, dec, valid, e := protocol.VerifDecodeBlockRange(enc)
			if e != nil || !valid {
				r.Trouble("decode own range: %v valid=%v", e, valid)
			}
			feedErr = fs.Feed(dec)
		}
		if feedErr == nil {
			if fs.Deferred() > 0 {
				feedErr = fmt.Errorf("headers up to the manifest height end without a certificate (%d deferred)", fs.Deferred())
				return
			}
			postErr = fs.PostConsuming()
		}
	})
	if pv != nil {
		if vfw.IsAbort(pv) {
			panic(pv)
		}
		r.Violate("C11:fast-sync-panicked", "byz=%q: %v\n%s", byz, pv, st)
	}
	if err != nil {
		r.Trouble("preConsuming: %v", err)
	}
	r.Logf("joiner: manifest h=%d byz=%q feedErr=%v postErr=%v", manifest.Height, byz, feedErr, postErr)
	if byz != "" {
		r.Fault("byzantine:" + byz)
	}
	if feedErr != nil {
		if byz == "" {
			r.Probe("honest_headers_refused")
			r.Note("honest header/diff feed refused: %v", feedErr)
		}
		return false
	}
	stPrefix := state.VerifStateDbPrefix(manifest.Height)
	if postErr != nil {
		// refused import: no partial state, previous state untouched
		if k := hasPrefixKeys(J, stPrefix); k > 0 {
			r.Violate("C11:refused-snapshot-import-left-partial-state", "byz=%q err=%v: %d keys remain under the snapshot's state prefix", byz, postErr, k)
		}
		after := fmt.Sprintf("head=%x root=%x idroot=%x", J.Chain.Head.Hash().Bytes()[:8], J.App.State.Root().Bytes()[:8], J.App.IdentityState.Root().Bytes()[:8])
		if after != before {
			r.Violate("C11:refused-snapshot-import-changed-node", "byz=%q err=%v: before %s after %s", byz, postErr, before, after)
		}
		if byz == "" {
			r.Violate("C11:honest-snapshot-refused", "uncorrupted archive of height %d refused: %v", manifest.Height, postErr)
		}
		r.Probe("corrupted_import_refused")
		return true
	}
	// accepted: exact root and contents
	var refState, refId [][2][]byte
	var refHdr *types.Header
	P.Do(func() {
		refHdr = P.Chain.GetBlockHeaderByHeight(manifest.Height)
		if ro, e := P.App.Readonly(manifest.Height); e == nil {
			refState, refId = ro.State.VerifDump(), ro.IdentityState.VerifDump()
		}
	})
	if J.Chain.Head.Hash() != refHdr.Hash() {
		r.Violate("C11:head-after-fast-sync-is-not-the-manifest-block", "byz=%q: head %x h=%d, expected %x h=%d", byz, J.Chain.Head.Hash().Bytes()[:6], J.Chain.Head.Height(), refHdr.Hash().Bytes()[:6], manifest.Height)
	}
	if J.App.State.Root() != refHdr.Root() || J.App.IdentityState.Root() != refHdr.IdentityRoot() {
		r.Violate("C11:roots-after-import-differ-from-header", "byz=%q: %x/%x vs header %x/%x", byz, J.App.State.Root().Bytes()[:6], J.App.IdentityState.Root().Bytes()[:6], refHdr.Root().Bytes()[:6], refHdr.IdentityRoot().Bytes()[:6])
	}
	if refState != nil {
		var js, ji [][2][]byte
		J.Do(func() { js, ji = J.App.State.VerifDump(), J.App.IdentityState.VerifDump() })
		if d := dumpDiff(js, refState); d != "" {
			r.Violate("C11:imported-state-contents-differ", "byz=%q: %s", byz, d)
		}
		if d := dumpDiff(ji, refId); d != "" {
			r.Violate("C11:imported-identity-state-contents-differ", "byz=%q: %s", byz, d)
		}
		// contents are also what a lookup by key returns (inner nodes of the imported tree route lookups and later insertions)
		J.Do(func() {
			t := J.App.State.VerifTree()
			for _, kv := range refState {
				if _, v := t.Get(kv[0]); !bytes.Equal(v, kv[1]) {
					r.Violate("C11:imported-state-lookup-differs", "byz=%q: the imported tree has root %x and iterates to the advertised contents, but looking up key %x returns %x instead of %x", byz, J.App.State.Root().Bytes()[:6], kv[0], v, kv[1])
				}
			}
			ti := J.App.IdentityState.VerifTree()
			for _, kv := range refId {
				if _, v := ti.Get(kv[0]); !bytes.Equal(v, kv[1]) {
					r.Violate("C11:imported-identity-state-lookup-differs", "byz=%q: key %x returns %x instead of %x", byz, kv[0], v, kv[1])
				}
			}
		})
	}
	if byz != "" && strings.HasPrefix(byz, "archive") {
		r.Probe("altered_archive_imported_with_exact_contents")
	}
	// continue with full blocks: a fast-synced node must behave like the others (C01 history)
	for h := manifest.Height + 1; h <= P.Chain.Head.Height(); h++ {
		e, pv, st := s.Insert(J, lr.encs[h])
		if pv != nil || e != nil {
			// compare the state the joiner computed with the state the peer committed at that height
			diff := ""
			P.Do(func() {
				if ro, e2 := P.App.Readonly(h); e2 == nil {
					diff = scen.DiffStates(J.LastApplied, ro)
				}
			})
			r.Violate("C11:fast-synced-node-rejects-next-block", "block %d after fast sync to %d: err=%v panic=%v; state computed by the joiner (A) vs state committed by the peer at that height (B):%s\n%s", h, manifest.Height, e, pv, diff, st)
		}
	}
	if J.App.State.Root() != P.App.State.Root() || J.App.IdentityState.Root() != P.App.IdentityState.Root() {
		r.Violate("C11:fast-synced-node-diverges", "after catching up to %d: %x/%x vs %x/%x", P.Chain.Head.Height(), J.App.State.Root().Bytes()[:6], J.App.IdentityState.Root().Bytes()[:6], P.App.State.Root().Bytes()[:6], P.App.IdentityState.Root().Bytes()[:6])
	}
	replayDiffs(r, J, "on the fast-synced joiner")
	r.Probe("joiner_fast_synced")
	return true
}

func dumpDiff(a, b [][2][]byte) string {
	if len(a) != len(b) {
		return fmt.Sprintf("%d entries vs %d", len(a), len(b))
	}
	for i := range a {
		if !bytes.Equal(a[i][0], b[i][0]) || !bytes.Equal(a[i][1], b[i][1]) || (a[i][1] == nil) != (b[i][1] == nil) {
			return fmt.Sprintf("entry %d: %x=%x vs %x=%x", i, a[i][0], a[i][1], b[i][0], b[i][1])
		}
	}
	return ""
}

func imin(a, b int) int {
	if a < b {
		return a
	}
	if b < 1 {
		return 1
	}
	return b
}

var _ = common.Hash{}
