package checks

import (
	"bytes"
	"context"
	"crypto/sha256"
	"encoding/json"
	"fmt"
	"io"
	"net"
	"net/http"
	"net/http/httptest"
	"os"
	"path/filepath"
	"strings"
	"sync/atomic"
	"time"

	"github.com/idena-network/idena-go/common/eventbus"
	"github.com/idena-network/idena-go/config"
	"github.com/idena-network/idena-go/events"
	"github.com/idena-network/idena-go/node"
	"github.com/idena-network/idena-go/rpc"
	"github.com/idena-network/idena-go/stats/collector"

	"verif/sim/vfw"
)

func init() {
	vfw.Register(&vfw.Check{
		ID:    "C19",
		Level: "exploration",
		Rule: "one case = one tape-drawn JSON-RPC exchange against the real rpc.Server with a probe service (call, context call, subscription): single or batched, over the single-shot HTTP handler (httptest recorder) or a multi-shot codec on an in-memory pipe (the WebSocket/IPC path), with keys drawn from {right, wrong, empty, missing, prefix, extended, case variant, number, null, array, object} per element, methods from {call, context call, subscribe, unsubscribe of another client's subscription, unknown}; " +
			"plus the node life cycle: a key-less request sent to the initial endpoint at the moment node.NewNodeWithInjections publishes DatabaseInitEvent (endpoint open, database not yet); " +
			"non-trivial = the exchange contains >= 1 element without the exact key and >= 1 with it; distinct by the exchange bytes",
		Real:         []string{"rpc.Server (readRequest key gate, dispatch, batches, subscriptions)", "rpc JSON codec", "rpc HTTP handler", "node.NewNodeWithInjections up to the database initialisation (initial endpoint, config.SetApiKey)"},
		Stub:         []string{"sockets for the component part (httptest recorder, net.Pipe); the life-cycle part uses a real localhost listener", "everything of the node after the initial endpoint (construction is abandoned at the content-store stub)"},
		Assumptions:  []string{"the gate is a function of one request and one constant and runs before dispatch: scheduling cannot influence it; this check's contribution is the request-shape x transport x life-cycle matrix, not interleavings (no simulated scheduler is used here, real goroutines serve the requests, the oracle is order-insensitive)"},
		QuickSecs:    30,
		ThoroughSecs: 600,
		MaxChoices:   100000,
		NoScheduler:  true,
		Run:          runC19,
	})
}

var c19LifecycleRuns int

type ProbeSvc struct {
	calls, ctxCalls, subs int64
}

func (p *ProbeSvc) Call(x int) int { atomic.AddInt64(&p.calls, 1); return x + 1 }
func (p *ProbeSvc) CtxCall(ctx context.Context, s string) string {
	atomic.AddInt64(&p.ctxCalls, 1)
	return s
}
func (p *ProbeSvc) Sub(ctx context.Context) (*rpc.Subscription, error) {
	notifier, ok := rpc.NotifierFromContext(ctx)
	if !ok {
		return nil, rpc.ErrNotificationsUnsupported
	}
	atomic.AddInt64(&p.subs, 1)
	return notifier.CreateSubscription(), nil
}

func (p *ProbeSvc) total() int64 {
	return atomic.LoadInt64(&p.calls) + atomic.LoadInt64(&p.ctxCalls) + atomic.LoadInt64(&p.subs)
}

const c19Key = "s3cr3t-Key-0123456789abcdef"

type c19elem struct {
	raw      string
	right    bool // carries exactly the key
	wellKey  bool // key field is absent or a JSON string (message still parses)
	method   string
	id       int
	wantCall bool // would invoke a probe method if admitted
}

func c19Elem(t interface{ Choose(string, int) int }, id int, subID string) c19elem {
	keys := []struct {
		js    string
		right bool
		str   bool
	}{
		{`"` + c19Key + `"`, true, true},
		{`"` + c19Key + `"`, true, true},
		{`"wrong"`, false, true},
		{`""`, false, true},
		{``, false, true}, // missing
		{`"` + c19Key[:len(c19Key)-1] + `"`, false, true},
		{`"` + c19Key + `x"`, false, true},
		{`"` + strings.ToUpper(c19Key) + `"`, false, true},
		{`" ` + c19Key + `"`, false, true},
		{`12345`, false, false},
		{`null`, false, true}, // null decodes into the empty string
		{`["` + c19Key + `"]`, false, false},
		{`{"key":"` + c19Key + `"}`, false, false},
		{`true`, false, false},
	}
	k := keys[t.Choose("c19.key", len(keys))]
	methods := []struct {
		m, params string
		call      bool
	}{
		{"probe_call", `[41]`, true},
		{"probe_ctxCall", `["x"]`, true},
		{"probe_subscribe", `["sub"]`, true},
		{"probe_unsubscribe", `["` + subID + `"]`, false},
		{"nosuch_method", `[]`, false},
		{"probe_call", `["notanint"]`, false},
		{"rpc_modules", `[]`, false},
	}
	m := methods[t.Choose("c19.method", len(methods))]
	var sb strings.Builder
	sb.WriteString(`{"jsonrpc":"2.0","id":` + fmt.Sprint(id) + `,"method":"` + m.m + `","params":` + m.params)
	if k.js != "" {
		sb.WriteString(`,"key":` + k.js)
	}
	sb.WriteString(`}`)
	return c19elem{raw: sb.String(), right: k.right, wellKey: k.str, method: m.m, id: id, wantCall: m.call}
}

type c19resp struct {
	Id     json.RawMessage `json:"id"`
	Result json.RawMessage `json:"result"`
	Error  *struct {
		Code    int    `json:"code"`
		Message string `json:"message"`
	} `json:"error"`
	Method string `json:"method"`
}

func runC19(r *vfw.Run) {
	t := r.Tape
	if t.Choose("c19.part", 12) == 0 && (c19LifecycleRuns < 40 || r.Replay) {
		// (each life-cycle probe leaves a listener and an open database behind in this process: the construction of the
		// node is abandoned half way; their number per worker process is capped)
		c19LifecycleRuns++
		c19Lifecycle(r)
		return
	}
	srv := rpc.NewServer(c19Key)
	probe := &ProbeSvc{}
	if err := srv.RegisterName("probe", probe); err != nil {
		r.Trouble("register: %v", err)
	}
	defer srv.Stop()
	// a subscription of an authorised client on a multi-shot connection (target of foreign unsubscribes)
	c1, s1 := net.Pipe()
	go srv.ServeCodec(rpc.NewJSONCodec(s1), rpc.OptionMethodInvocation|rpc.OptionSubscriptions)
	defer c1.Close()
	rd1 := json.NewDecoder(c1)
	send := func(c net.Conn, dec *json.Decoder, msg string) (string, error) {
		c.SetDeadline(time.Now().Add(10 * time.Second))
		if _, err := io.WriteString(c, msg); err != nil { // no trailing byte: a JSON value delimits itself, net.Pipe writes are synchronous
			return "", err
		}
		var raw json.RawMessage
		if err := dec.Decode(&raw); err != nil {
			return "", err
		}
		return string(raw), nil
	}
	out, err := send(c1, rd1, `{"jsonrpc":"2.0","id":1,"method":"probe_subscribe","params":["sub"],"key":"`+c19Key+`"}`)
	if err != nil {
		r.Trouble("owner subscribe: %v", err)
	}
	var sr c19resp
	json.Unmarshal([]byte(out), &sr)
	var subID string
	json.Unmarshal(sr.Result, &subID)
	if subID == "" {
		r.Trouble("owner subscribe gave no id: %s", out)
	}
	base := probe.total()
	// ---- the drawn exchange ----
	n := 1
	batch := t.Choose("c19.batch", 3) != 0
	if batch {
		n = 1 + t.Choose("c19.batchn", 6)
	}
	var elems []c19elem
	var parts []string
	for i := 0; i < n; i++ {
		e := c19Elem(t, 100+i, subID)
		elems = append(elems, e)
		parts = append(parts, e.raw)
	}
	msg := parts[0]
	if batch {
		msg = "[" + strings.Join(parts, ",") + "]"
	}
	multishot := t.Choose("c19.transport", 2) == 1
	var respRaw string
	if multishot {
		// the requesting client uses its own connection: unsubscribe targets another client's subscription
		c2, s2 := net.Pipe()
		go srv.ServeCodec(rpc.NewJSONCodec(s2), rpc.OptionMethodInvocation|rpc.OptionSubscriptions)
		rd2 := json.NewDecoder(c2)
		// the connection has a past: sometimes a batch in which every element carried the key went over it before
		// (whatever the codec keeps between messages of one connection must not lend those keys to later elements)
		if t.ChooseOpt("c19.primed", 2) == 1 {
			k := 1 + t.Choose("c19.primen", 7)
			var pp []string
			for i := 0; i < k; i++ {
				pp = append(pp, fmt.Sprintf(`{"jsonrpc":"2.0","id":%d,"method":"probe_call","params":[7],"key":"%s"}`, 9000+i, c19Key))
			}
			if _, perr := send(c2, rd2, "["+strings.Join(pp, ",")+"]"); perr != nil {
				r.Trouble("priming batch: %v", perr)
			}
			time.Sleep(2 * time.Millisecond)
			base = probe.total()
			r.Fault("keyed_batch_earlier_on_the_same_connection")
		}
		respRaw, err = send(c2, rd2, msg)
		if t.Choose("c19.closemid", 6) == 0 {
			r.Fault("connection_closed_after_request")
		}
		c2.Close()
		if err != nil {
			r.Trouble("multishot exchange: %v (request %s)", err, msg)
		}
	} else {
		req := httptest.NewRequest(http.MethodPost, "http://node/", strings.NewReader(msg))
		req.Header.Set("Content-Type", "application/json")
		rec := httptest.NewRecorder()
		srv.ServeHTTP(rec, req)
		respRaw = rec.Body.String()
	}
	time.Sleep(2 * time.Millisecond) // let per-request goroutines of the multi-shot path finish
	// ---- oracle ----
	var resps []c19resp
	trim := strings.TrimSpace(respRaw)
	if strings.HasPrefix(trim, "[") {
		json.Unmarshal([]byte(trim), &resps)
	} else if trim != "" {
		var one c19resp
		json.Unmarshal([]byte(trim), &one)
		resps = []c19resp{one}
	}
	byID := map[string]c19resp{}
	for _, rp := range resps {
		byID[string(rp.Id)] = rp
	}
	anyBadKeyShape := false
	rights, wrongs := 0, 0
	expectCalls := int64(0)
	for _, e := range elems {
		if !e.wellKey {
			anyBadKeyShape = true
		}
		if e.right {
			rights++
		} else {
			wrongs++
		}
	}
	if !anyBadKeyShape {
		for _, e := range elems {
			rp, ok := byID[fmt.Sprint(e.id)]
			if !e.right {
				if !ok || rp.Error == nil {
					r.Violate("C19:keyless-request-not-answered-with-error", "request %s (in %s) answered with %s", e.raw, msg, respRaw)
				}
				if rp.Error.Code != -32800 {
					r.Violate("C19:keyless-wellformed-request-not-answered-with-invalid-key-error", "request %s answered with code %d %q", e.raw, rp.Error.Code, rp.Error.Message)
				}
				continue
			}
			// keyed elements of the same exchange are still served
			if e.wantCall && !(e.method == "probe_subscribe" && !multishot) {
				if !ok || rp.Error != nil {
					r.Violate("C19:keyed-request-not-served", "request %s (in %s over multishot=%v) answered with %s", e.raw, msg, multishot, respRaw)
				}
				expectCalls++
			}
		}
	}
	got := probe.total() - base
	if anyBadKeyShape {
		// the message does not parse as requests with string keys: nothing may run (an error answer is enough)
		if got != 0 {
			r.Violate("C19:method-ran-for-oddly-typed-key", "exchange %s invoked %d probe methods; response %s", msg, got, respRaw)
		}
	} else if got != expectCalls {
		r.Violate("C19:probe-invocations-differ-from-keyed-requests", "exchange %s over multishot=%v: %d probe invocations, %d keyed invoking elements; response %s", msg, multishot, got, expectCalls, respRaw)
	}
	// the owner's subscription must still exist unless a KEYED unsubscribe was in the exchange
	keyedUnsub := false
	for _, e := range elems {
		if e.method == "probe_unsubscribe" && e.right && !anyBadKeyShape {
			keyedUnsub = true
		}
	}
	out, err = send(c1, rd1, `{"jsonrpc":"2.0","id":2,"method":"probe_unsubscribe","params":["`+subID+`"],"key":"`+c19Key+`"}`)
	if err != nil {
		r.Trouble("owner unsubscribe: %v", err)
	}
	var ur c19resp
	json.Unmarshal([]byte(out), &ur)
	stillThere := ur.Error == nil && string(ur.Result) == "true"
	// the server registers a subscription only AFTER it has written the subscribe response, and serves requests of one
	// connection in separate goroutines: on a loaded machine the owner's unsubscribe can overtake the registration and be
	// told "not found". A subscription that really was cancelled stays not found; a late one appears within moments.
	for try := 0; !stillThere && !keyedUnsub && try < 40; try++ {
		time.Sleep(25 * time.Millisecond)
		out, err = send(c1, rd1, `{"jsonrpc":"2.0","id":2,"method":"probe_unsubscribe","params":["`+subID+`"],"key":"`+c19Key+`"}`)
		if err != nil {
			r.Trouble("owner unsubscribe: %v", err)
		}
		ur = c19resp{}
		json.Unmarshal([]byte(out), &ur)
		stillThere = ur.Error == nil && string(ur.Result) == "true"
		if stillThere {
			r.Probe("owner_unsubscribe_overtook_registration")
		}
	}
	if !stillThere && !keyedUnsub {
		r.Violate("C19:subscription-cancelled-without-key", "after exchange %s the owner's subscription %s no longer exists (%s)", msg, subID, out)
	}
	h := sha256.Sum256([]byte(fmt.Sprintf("%v|%s", multishot, strings.ReplaceAll(msg, subID, "SUB"))))
	r.Case(fmt.Sprintf("%x", h[:8]), rights > 0 && wrongs > 0)
	if wrongs > 0 {
		r.Fault("request_without_exact_key")
	}
	if r.Sample == nil {
		r.Sample = map[string]interface{}{"transport": map[bool]string{true: "multi-shot codec over net.Pipe", false: "HTTP handler"}[multishot], "request": strings.ReplaceAll(msg, c19Key, "<KEY>"), "response": respRaw}
	}
	_ = bytes.NewReader
}

// c19Lifecycle: with a key kept in the data directory (the default deployment), is the initial endpoint - opened by
// node.NewNodeWithInjections before the database - already gated?
func c19Lifecycle(r *vfw.Run) {
	dir := filepath.Join(r.Dir, fmt.Sprintf("c19node%d", r.Index&0xffff))
	os.RemoveAll(dir)
	os.MkdirAll(dir, 0755)
	defer os.RemoveAll(dir)
	fileKey := "0123456789abcdef0123456789abcdef"
	viaFile := r.Tape.Choose("c19.keyvia", 2) == 0
	cfg := &config.Config{DataDir: dir, Network: 0x77, RPC: rpc.GetDefaultRPCConfig("127.0.0.1", 0), IpfsConf: &config.IpfsConfig{}, Consensus: config.GetDefaultConsensusConfig(),
		GenesisConf: &config.GenesisConf{}, Validation: &config.ValidationConfig{}, Blockchain: &config.BlockchainConfig{}, Sync: &config.SyncConfig{}, P2P: config.P2P{}}
	fileKind := ""
	if viaFile {
		// what a data directory can hold: the key, the key with a line end, or - after a start that was killed between
		// truncating and writing the file, or a full disk - nothing (the node then makes up a new key; it never runs open)
		content := fileKey
		switch r.Tape.ChooseOpt("c19.keyfile", 4) {
		case 1:
			content, fileKind = fileKey+"\n", " with a line end"
		case 2:
			content, fileKind = "", " (empty file)"
		case 3:
			content, fileKind = " \n", " (blank file)"
		}
		os.WriteFile(filepath.Join(dir, "api.key"), []byte(content), 0600)
	} else {
		cfg.RPC.APIKey = fileKey
	}
	bus := eventbus.New()
	var answered string
	var reqErr error
	tried := false
	for attempt := 0; attempt < 6 && answered == ""; attempt++ {
		// a free localhost port (closed again before the node binds it)
		l, lerr := net.Listen("tcp", "127.0.0.1:0")
		if lerr != nil {
			r.Trouble("no free port: %v", lerr)
		}
		port := l.Addr().(*net.TCPAddr).Port
		l.Close()
		cfg.RPC.HTTPPort = port
		tried, reqErr = false, nil
		bus = eventbus.New()
		bus.Subscribe(events.DatabaseInitEventId, func(e eventbus.Event) {
			// the initial endpoint is listening, the database is not open yet
			tried = true
			cl := &http.Client{Timeout: 5 * time.Second}
			resp, err := cl.Post(fmt.Sprintf("http://127.0.0.1:%d", port), "application/json", strings.NewReader(`{"jsonrpc":"2.0","id":1,"method":"bcn_syncing","params":[]}`))
			if err != nil {
				reqErr = err
				return
			}
			b, _ := io.ReadAll(resp.Body)
			resp.Body.Close()
			answered = string(b)
		})
		func() {
			defer func() { recover() }() // construction is abandoned at the content-store stub (no libp2p host)
			ctx, err := node.NewNodeWithInjections(cfg, bus, collector.NewStatsCollector(), "verif")
			if err == nil && ctx != nil && ctx.Node != nil {
				_ = ctx
			}
		}()
	}
	if !tried || reqErr != nil {
		r.Trouble("life-cycle probe could not reach the initial endpoint: tried=%v err=%v", tried, reqErr)
	}
	var rp c19resp
	json.Unmarshal([]byte(answered), &rp)
	r.Fault("keyless_request_to_initial_endpoint")
	if rp.Error == nil || rp.Error.Code != -32800 {
		where := "given in the configuration"
		if viaFile {
			where = "kept in the data directory (api.key)" + fileKind
		}
		r.Violate("C19:initial-endpoint-serves-keyless-request", "node configured with an API key %s: a request without key sent to the initial endpoint while the database is being opened was answered with %s", where, answered)
	}
	r.Case(fmt.Sprintf("lifecycle/file=%v%s", viaFile, fileKind), true)
	if r.Sample == nil {
		r.Sample = map[string]interface{}{"kind": "life cycle", "key_via_file": viaFile, "response": answered}
	}
}
