package checks

import (
	"strings"

	"bytes"
	"fmt"
	"github.com/idena-network/idena-go/api"
	"github.com/idena-network/idena-go/consensus"
	"github.com/idena-network/idena-go/protocol"
	"github.com/idena-network/idena-go/stats/collector"
	"sort"

	"github.com/idena-network/idena-go/blockchain/types"
	"github.com/idena-network/idena-go/common"
	"github.com/idena-network/idena-go/core/appstate"
	"github.com/idena-network/idena-go/database"
	dbm "github.com/tendermint/tm-db"

	"verif/sim/oracle"
	"verif/sim/scen"
	"verif/sim/simdisk"
	"verif/sim/simnode"
	"verif/sim/vfw"
)

func init() {
	vfw.Register(&vfw.Check{
		ID:    "C13",
		Level: "exploration",
		Rule: "two kinds of case. (a) component: a tape-drawn sequence of get/has/set/delete/forward+reverse range iteration and batches (left open across other operations, written or discarded) on the real copy-on-write store (database.BackedMemDb) over a pre-loaded simulated disk, compared operation by operation with an ordinary ordered map pre-loaded with the same data; " +
			"(b) in-run: around every proposal building, block validation (accepted and rejected), read-only view, check view and read-only RPC query (bcn_estimateRawTx through the real api package) of a simulated ledger run the canonical roots, tree versions and the simulated disk's unit counter are compared, and getter values recorded at commit time are compared with read-only views of retained heights taken later while commits, restarts and rollbacks proceed. " +
			"non-trivial = (a) sequence with >= 1 shadowed or deleted base key that is later iterated, (b) run with >= 5 historical reads of heights below the head; distinct by history fingerprint",
		Real:         append(append([]string{}, realLedger...), "database.BackedMemDb + backedMemBatch + merged iterator", "AppState.ForCheck / Readonly / ForCheckWithOverwrite", "tm-db MemDB (inner store of BackedMemDb)", "api.BlockchainApi.EstimateRawTx over a real consensus.Engine object (state getters only)"),
		Stub:         stubLedger,
		Assumptions:  []string{"a historical read of a pruned or rolled-back height may fail; it may never return other values than those recorded at commit time"},
		QuickSecs:    60,
		ThoroughSecs: 1200,
		MaxChoices:   300000,
		Run:          runC13,
	})
}

// ---- (a) component model ----

type refStore struct{ m map[string][]byte }

func (r *refStore) keys() []string {
	var ks []string
	for k := range r.m {
		ks = append(ks, k)
	}
	sort.Strings(ks)
	return ks
}

func (r *refStore) rng(start, end []byte, reverse bool) [][2][]byte {
	var out [][2][]byte
	for _, k := range r.keys() {
		if start != nil && bytes.Compare([]byte(k), start) < 0 {
			continue
		}
		if end != nil && bytes.Compare([]byte(k), end) >= 0 {
			continue
		}
		out = append(out, [2][]byte{[]byte(k), r.m[k]})
	}
	if reverse {
		for i, j := 0, len(out)-1; i < j; i, j = i+1, j-1 {
			out[i], out[j] = out[j], out[i]
		}
	}
	return out
}

func c13Component(r *vfw.Run) {
	t := r.Tape
	// keys chosen so that borders fall on, between and beyond keys
	alphabet := []string{"a", "ab", "b", "c", "ca", "cb", "d", "e", "f", "m", "ma", "z"}
	borders := []string{"", "a", "aa", "ab", "b", "bz", "c", "cb", "cz", "d", "g", "m", "mb", "z", "zz", "\xff"}
	base := simdisk.New()
	ref := &refStore{m: map[string][]byte{}}
	nbase := t.Choose("c13.nbase", len(alphabet)+1)
	for i := 0; i < nbase; i++ {
		k := alphabet[t.Choose("c13.basekey", len(alphabet))]
		v := []byte(fmt.Sprintf("base-%d", i))
		if t.Choose("c13.emptyval", 6) == 0 {
			v = []byte{}
		}
		base.Set([]byte(k), v)
		ref.m[k] = v
	}
	unitsBefore := base.Units
	hashBefore := base.ContentHash()
	var db dbm.DB = database.NewBackedMemDb(base)
	shadowed, iterated := false, false
	nops := 5 + t.Choose("c13.nops", 40)
	uniq := 0
	val := func() []byte {
		uniq++
		if t.Choose("c13.emptyval", 8) == 0 {
			return []byte{}
		}
		return []byte(fmt.Sprintf("v%d", uniq))
	}
	var log []string
	type batchOp struct {
		k   string
		v   []byte
		del bool
	}
	var pending dbm.Batch
	var pendingOps []batchOp
	for i := 0; i < nops; i++ {
		k := alphabet[t.Choose("c13.key", len(alphabet))]
		switch t.Choose("c13.op", 8) {
		case 0:
			got, err := db.Get([]byte(k))
			want, ok := ref.m[k]
			log = append(log, fmt.Sprintf("get %s", k))
			if err != nil || (ok != (got != nil)) || ok && !bytes.Equal(got, want) {
				r.Violate("C13:cow-store-get-differs-from-reference", "after %v: Get(%q) = %q (err %v), reference %q present=%v", log, k, got, err, want, ok)
			}
		case 1:
			got, err := db.Has([]byte(k))
			_, ok := ref.m[k]
			log = append(log, fmt.Sprintf("has %s", k))
			if err != nil || got != ok {
				r.Violate("C13:cow-store-has-differs-from-reference", "after %v: Has(%q) = %v (err %v), reference %v", log, k, got, err, ok)
			}
		case 2:
			v := val()
			if _, inBase := ref.m[k]; inBase {
				shadowed = true
			}
			if err := db.Set([]byte(k), v); err != nil {
				r.Trouble("set: %v", err)
			}
			ref.m[k] = v
			log = append(log, fmt.Sprintf("set %s=%s", k, v))
		case 3:
			if _, in := ref.m[k]; in {
				shadowed = true
			}
			if err := db.Delete([]byte(k)); err != nil {
				r.Trouble("delete: %v", err)
			}
			delete(ref.m, k)
			log = append(log, fmt.Sprintf("del %s", k))
		case 4:
			// batches stay open across other operations: an ordinary store shows nothing of a batch before Write,
			// and nothing at all of a batch that is closed without Write
			switch {
			case pending == nil:
				pending = db.NewBatch()
				pendingOps = nil
				log = append(log, "batch-open")
				fallthrough
			case t.Choose("c13.batchwhat", 4) < 2:
				bk := alphabet[t.Choose("c13.key", len(alphabet))]
				buf := []byte(bk) // (tm-db's contract: key and value are read-only for both sides after the call)
				if t.Choose("c13.batchdel", 3) == 0 {
					pending.Delete(buf)
					pendingOps = append(pendingOps, batchOp{bk, nil, true})
					log = append(log, "batch-del "+bk)
				} else {
					v := val()
					pending.Set(buf, v)
					pendingOps = append(pendingOps, batchOp{bk, v, false})
					log = append(log, fmt.Sprintf("batch-set %s=%s", bk, v))
				}
			case t.Choose("c13.batchdiscard", 3) == 0:
				pending.Close()
				pending = nil
				log = append(log, "batch-discard")
				r.Probe("batch_discarded")
			default:
				if t.Choose("c13.batchsync", 2) == 0 {
					pending.Write()
				} else {
					pending.WriteSync()
				}
				pending.Close()
				pending = nil
				for _, o := range pendingOps {
					if _, in := ref.m[o.k]; in {
						shadowed = true
					}
					if o.del {
						delete(ref.m, o.k)
					} else {
						ref.m[o.k] = o.v
					}
				}
				log = append(log, "batch-write")
			}
		default:
			var start, end []byte
			if s := borders[t.Choose("c13.start", len(borders))]; s != "" {
				start = []byte(s)
			}
			if e := borders[t.Choose("c13.end", len(borders))]; e != "" {
				end = []byte(e)
			}
			rev := t.Choose("c13.reverse", 2) == 1
			var it dbm.Iterator
			var err error
			if rev {
				it, err = db.ReverseIterator(start, end)
			} else {
				it, err = db.Iterator(start, end)
			}
			if err != nil {
				r.Trouble("iterator: %v", err)
			}
			var got [][2][]byte
			for n := 0; it.Valid() && n < 100; it.Next() {
				got = append(got, [2][]byte{it.Key(), it.Value()})
				n++
			}
			it.Close()
			want := ref.rng(start, end, rev)
			log = append(log, fmt.Sprintf("iter[%q,%q) rev=%v", start, end, rev))
			iterated = true
			same := len(got) == len(want)
			for j := 0; same && j < len(got); j++ {
				same = bytes.Equal(got[j][0], want[j][0]) && bytes.Equal(got[j][1], want[j][1])
			}
			if !same {
				r.Violate("C13:cow-store-iteration-differs-from-reference", "after %v: got %q, reference %q", log, got, want)
			}
		}
	}
	if base.Units != unitsBefore || base.ContentHash() != hashBefore {
		r.Violate("C13:cow-store-wrote-to-its-base", "after %v: base store units %d -> %d", log, unitsBefore, base.Units)
	}
	r.Case("a/"+fmt.Sprint(log), shadowed && iterated)
	r.Probe("component_sequence")
	if r.Sample == nil {
		r.Sample = map[string]interface{}{"kind": "copy-on-write store vs reference map", "operations": log}
	}
}

// ---- (b) in-run ----

type canon struct {
	root, idroot common.Hash
	ver, idver   int64
	units        int
	head         common.Hash
}

func canonOf(n *simnode.Node) canon {
	return canon{n.App.State.Root(), n.App.IdentityState.Root(), n.App.State.Version(), int64(n.App.IdentityState.Version()), n.Disk.Units, n.Chain.Head.Hash()}
}

func histDigest(app *appstate.AppState, addrs []common.Address) string {
	s := oracle.GlobalText(app) + "\n"
	// the view's validator registry belongs to the view's height as well (network size, online set, pools, committees
	// are read from it by everything that validates on the view)
	if app.ValidatorsCache != nil {
		s += "registry: " + oracle.ValidatorsText(app.ValidatorsCache, addrs) + "\n"
	}
	for _, a := range addrs {
		id := app.State.GetIdentity(a)
		s += fmt.Sprintf("%x bal=%v stake=%v st=%d nonce=%d ep=%d val=%v on=%v\n", a[:4], app.State.GetBalance(a), app.State.GetStakeBalance(a), id.State, app.State.GetNonce(a), app.State.GetEpoch(a), app.IdentityState.IsValidated(a), app.IdentityState.IsOnline(a))
	}
	return s
}

// contractDigest: balances and stakes of the run's contracts as a view shows them.
func contractDigest(app *appstate.AppState, s *scen.Scn) string {
	var sb strings.Builder
	for _, c := range s.Contracts {
		fmt.Fprintf(&sb, "contract %x bal=%v stake=%v\n", c.Addr[:4], app.State.GetBalance(c.Addr), app.State.GetContractStake(c.Addr))
	}
	return sb.String()
}

func runC13(r *vfw.Run) {
	if r.Choose("c13.kind", 3) == 0 {
		n := 1 + r.Choose("c13.nseq", 20)
		for i := 0; i < n; i++ {
			c13Component(r)
		}
		return
	}
	o := scen.Opts{MinIdent: 2, MaxIdent: 14, CeremonySoon: true, Contracts: r.Choose("c13.contracts", 2) == 0, SmallShards: true}
	lr := newLedgerRun(r, o, 25, 40)
	if o.Contracts {
		lr.l.Mix.Contracts = 3
	}
	if r.Tier == "thorough" && r.Choose("c13.long", 5) == 0 {
		lr.rounds = 104 + r.Choose("c13.longrounds", 15) // version pruning
		r.Probe("long_run_with_pruning")
	}
	s := lr.s
	defer s.Close()
	addrs := lr.actors()
	recorded := map[uint64]string{}
	histReads := 0
	same := func(n *simnode.Node, before canon, what string, allowUnits bool) {
		after := canonOf(n)
		if allowUnits {
			after.units = before.units
		}
		if after != before {
			r.Violate("C13:speculative-work-changed-canonical-state/"+what, "node %d at h=%d: before %+v after %+v", n.ID, n.Chain.Head.Height(), before, after)
		}
	}
	lr.loop("", func(rr *scen.RoundResult) bool {
		// l.Round already built the proposal and self-validated it; do the speculative operations explicitly with measurements
		for _, n := range lr.nodes {
			before := canonOf(n)
			var err error
			n.Do(func() { _, err = n.Chain.ValidateBlock(rr.Block, nil, nil) })
			same(n, before, "validate-accepted", false)
			_ = err
			// rejected validation: a copy with a wrong root
			bad := new(types.Block)
			if bad.FromBytes(rr.Enc) == nil {
				if bad.Header.ProposedHeader != nil {
					bad.Header.ProposedHeader.Root[3] ^= 0x10
				} else {
					bad.Header.EmptyBlockHeader.Root[3] ^= 0x10
				}
				n.Do(func() { _, err = n.Chain.ValidateBlock(bad, nil, nil) })
				if err == nil {
					r.Probe("wrong_root_block_validated_ok")
				}
				same(n, before, "validate-rejected", false)
			}
			// building a proposal (writes its applying-tx log to the repo, never to the state)
			if r.Choose("c13.propose", 3) == 0 {
				n.Do(func() { n.Chain.ProposeBlock(nil) })
				same(n, before, "propose", true)
				before = canonOf(n) // the applying-tx log of the repo advanced the unit counter
				r.Probe("speculative:propose")
			}
			// private views
			h := n.Chain.Head.Height()
			n.Do(func() {
				if cs, e := n.App.ForCheck(h); e == nil {
					cs.State.SetBalance(addrs[0], common.DnaBase)
					cs.State.SetNonce(addrs[1%len(addrs)], 777)
					cs.IdentityState.SetOnline(addrs[0], true)
					cs.Precommit()
				}
				// (the read-only view is only read: AppState.Readonly hands every caller the same cached object and the
				// product never writes into it - an earlier version of this check wrote into it and then flagged its own write)
				if ro, e := n.App.Readonly(h); e == nil {
					_ = histDigest(ro, addrs)
				}
			})
			same(n, before, "write-into-check-view-and-read-readonly-view", false)
			if h > 3 && r.Choose("c13.subchain", 5) == 0 {
				// fork check on an older height (re-validation of own blocks as a sub-chain)
				d := uint64(1 + r.Choose("c13.subdepth", 3))
				var bundles []types.BlockBundle
				n.Do(func() {
					for k := h - d + 1; k <= h; k++ {
						b := n.Chain.GetBlockByHeight(k)
						if b == nil {
							return
						}
						bundles = append(bundles, types.BlockBundle{Block: b, Cert: n.Chain.GetCertificate(b.Hash())})
					}
					if len(bundles) == int(d) {
						_ = n.Chain.ValidateSubChain(h-d, bundles)
					}
				})
				same(n, before, "validate-subchain", false)
				r.Probe("speculative:subchain")
			}
		}
		return true
	}, func(rr *scen.RoundResult) {
		n0 := lr.nodes[0]
		n0.Do(func() { recorded[rr.Height] = histDigest(n0.App, addrs) })
		// read-only RPC queries (fee and contract estimation) through the real api package: they may change neither the
		// canonical state nor what read-only views of the head return afterwards
		if r.Choose("c13.apiquery", 2) == 0 {
			n := lr.nodes[r.Choose("c13.apinode", len(lr.nodes))]
			var tx *types.Transaction
			n.Do(func() {
				if lr.l.Mix.Contracts > 0 && r.Choose("c13.apicontract", 4) != 0 {
					tx, _ = s.GenContractTx(n)
				}
				if tx == nil {
					tx, _ = s.GenTx(n, lr.l.Mix)
				}
			})
			if tx != nil {
				before := canonOf(n)
				var roBefore, roAfter string
				h := n.Chain.Head.Height()
				n.Do(func() {
					if ro, e := n.App.Readonly(h); e == nil {
						roBefore = histDigest(ro, addrs) + contractDigest(ro, s)
					}
				})
				pv, _ := n.Do(func() {
					eng := consensus.NewEngine(n.Chain, protocol.VerifNewBareHandler(), n.Props, n.Cfg, n.App, n.Votes, n.Pool, n.Sec, nil, n.OD, n.Upg, n.Ipfs, n.Bus, collector.NewStatsCollector())
					base := api.NewBaseApi(eng, n.Pool, n.KeyStore, n.Sec, n.Ipfs)
					bapi := api.NewBlockchainApi(base, n.Chain, n.Ipfs, n.Pool, nil, nil, nil)
					raw, _ := tx.ToBytes()
					var from *common.Address
					if r.Choose("c13.apiunsigned", 2) == 0 {
						u := *tx
						u.Signature = nil
						raw, _ = (&u).ToBytes()
						snd, _ := types.Sender(tx)
						from = &snd
					}
					if _, err := bapi.EstimateRawTx(raw, from); err == nil {
						r.Probe("api_estimate_ok")
					} else {
						r.Probe("api_estimate_refused")
					}
				})
				if pv != nil {
					r.Probe("api_estimate_panicked")
				}
				same(n, before, "read-only-api-query", false)
				n.Do(func() {
					if ro, e := n.App.Readonly(h); e == nil {
						roAfter = histDigest(ro, addrs) + contractDigest(ro, s)
					}
				})
				if roBefore != roAfter {
					r.Violate("C13:read-only-query-changed-what-read-only-views-return", "node %d at h=%d after bcn_estimateRawTx of a type-%d transaction (amount %v): %s", n.ID, h, tx.Type, tx.Amount, oracle.FirstTextDiff(roBefore, roAfter))
				}
				r.Fault("read_only_api_query")
			}
		}
		// historical reads of retained heights on every replica
		for k := 0; k < 2; k++ {
			n := lr.nodes[r.Choose("c13.histnode", len(lr.nodes))]
			back := uint64(r.Choose("c13.histback", 12))
			if back >= rr.Height-1 {
				continue
			}
			h := rr.Height - back
			want, ok := recorded[h]
			if !ok {
				continue
			}
			var got string
			var err error
			n.Do(func() {
				var ro *appstate.AppState
				ro, err = n.App.Readonly(h)
				if err == nil {
					got = histDigest(ro, addrs)
				}
			})
			if err != nil {
				r.Probe("historical_read_refused")
				continue
			}
			if back > 0 {
				histReads++
			}
			if got != want {
				r.Violate("C13:historical-view-differs-from-commit-time-values", "node %d Readonly(%d) at head %d: %s", n.ID, h, rr.Height, oracle.FirstTextDiff(want, got))
			}
		}
		if len(lr.nodes) > 1 && rr.Height > 4 && r.Choose("c13.perturb", 8) == 0 {
			v := lr.nodes[1+r.Choose("c13.which", len(lr.nodes)-1)]
			if r.Choose("c13.perturbkind", 2) == 0 {
				if err, pv, _ := s.Restart(v); err != nil || pv != nil {
					r.Probe("scenario_cut_short:restart-failed")
				} else {
					r.Fault("restart")
				}
			} else {
				d := uint64(1 + r.Choose("c13.depth", 3))
				var rerr error
				v.Do(func() { _, rerr = v.Chain.ResetTo(rr.Height - d) })
				if rerr == nil {
					for h := rr.Height - d + 1; h <= rr.Height; h++ {
						s.Insert(v, lr.encs[h])
					}
					r.Fault("rollback_and_reapply")
				}
			}
		}
	})
	r.Case("b/"+r.W.Fingerprint(), histReads >= 5)
	lr.sample(map[string]interface{}{"kind": "in-run isolation and historical reads", "historical_reads_below_head": histReads})
}
