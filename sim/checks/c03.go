package checks

import (
	"crypto/sha256"
	"fmt"
	"math"
	"math/big"
	"sort"

	"github.com/idena-network/idena-go/blockchain/types"
	"github.com/idena-network/idena-go/common"
	"github.com/idena-network/idena-go/crypto"
	"github.com/idena-network/idena-go/crypto/vrf/p256"

	"verif/sim/oracle"
	"verif/sim/scen"
	"verif/sim/simnode"
	"verif/sim/vfw"
)

func init() {
	vfw.Register(&vfw.Check{
		ID:    "C03",
		Level: "exploration",
		Rule: "one case = (valid block of a simulated ledger run, tamper operator): the Byzantine peer alters one derived field (bit flip, +-1, nil/empty, value from another block), the timestamp window, the proposer (ineligible key with a valid VRF proof; a whole, fully consistent block built by a replica that is not eligible with its own key), or the body (drop/duplicate/swap/append, with and without recomputed commitments) and delivers the copy through the real decode + AddBlock to a victim whose every observable is digested before and after; " +
			"non-trivial = the tampered encoding differs from the honest one and decodes; distinct by (block hash, operator, argument)",
		Real:         realLedger,
		Stub:         stubLedger,
		Assumptions:  []string{"the proposer's free choices (timestamp inside the window, offline flags and address, upgrade bits, absent fee rate) are not tampered, per the property text", "side-effect freedom is measured on: head, committed roots, tree versions, simulated-disk unit counter and content hash, validator-view digest, mempool digest"},
		QuickSecs:    60,
		ThoroughSecs: 1200,
		MaxChoices:   300000,
		Run:          runC03,
	})
}

func poolDigest(n *simnode.Node) string {
	var hs []string
	for _, tx := range n.Pool.GetPendingTransaction(true, true, common.MultiShard, false) {
		hs = append(hs, tx.Hash().Hex())
	}
	sort.Strings(hs)
	h := sha256.Sum256([]byte(fmt.Sprint(hs)))
	return fmt.Sprintf("%d/%x", len(hs), h[:6])
}

func victimDigest(n *simnode.Node, addrs []common.Address, withContent bool) string {
	var d string
	n.Do(func() {
		d = fmt.Sprintf("head=%x h=%d root=%x idroot=%x ver=%d idver=%d units=%d vc=%s pool=%s", n.Chain.Head.Hash().Bytes()[:8], n.Chain.Head.Height(), n.App.State.Root().Bytes()[:8], n.App.IdentityState.Root().Bytes()[:8],
			n.App.State.Version(), n.App.IdentityState.Version(), n.Disk.Units, oracle.ValidatorsDigest(n.App.ValidatorsCache, addrs), poolDigest(n))
		if withContent {
			ch := n.Disk.ContentHash()
			d += fmt.Sprintf(" disk=%x", ch[:8])
		}
	})
	return d
}

func flipBit(b []byte, k int) []byte {
	c := append([]byte{}, b...)
	if len(c) == 0 {
		return []byte{1}
	}
	c[k%len(c)] ^= 1 << uint(k%8)
	return c
}

func flipHash(h common.Hash, k int) common.Hash {
	var r common.Hash
	copy(r[:], flipBit(h[:], k))
	return r
}

// tamper applies operator op (with argument arg) to a decoded copy of the block.
// other is an earlier block of the run (source of "value taken from another block").
// Returns a label, or "" when the operator does not apply to this block.
func tamper(s *scen.Scn, b *types.Block, other *types.Block, prev *types.Header, now int64, op, arg int, outsider *scen.Ident) string {
	if b.Header.EmptyBlockHeader != nil {
		h := b.Header.EmptyBlockHeader
		switch op % 8 {
		case 0:
			h.Root = flipHash(h.Root, arg)
			return "empty.root.bitflip"
		case 1:
			h.IdentityRoot = flipHash(h.IdentityRoot, arg)
			return "empty.identityroot.bitflip"
		case 2:
			h.BlockSeed = types.Seed(flipHash(common.Hash(h.BlockSeed), arg))
			return "empty.seed.bitflip"
		case 3:
			h.Time += int64(1 + arg%50)
			return "empty.time.plus"
		case 4:
			h.Time -= int64(1 + arg%15)
			return "empty.time.minus"
		case 5:
			h.Flags ^= types.BlockFlag(1 << uint(arg%7))
			return "empty.flags.bit"
		case 6:
			h.ParentHash = flipHash(h.ParentHash, arg)
			return "empty.parent.bitflip"
		case 7:
			if arg%2 == 0 {
				h.Height++
			} else {
				h.Height--
			}
			return "empty.height.pm1"
		}
	}
	h := b.Header.ProposedHeader
	oh := (*types.ProposedHeader)(nil)
	if other != nil {
		oh = other.Header.ProposedHeader
	}
	recompute := func() {
		h.TxHash = types.DeriveSha(types.Transactions(b.Body.Transactions))
		c, _ := s.Nodes[0].Ipfs.Cid(b.Body.ToBytes())
		h.IpfsHash = c.Bytes()
	}
	switch op % 30 {
	case 0:
		h.Root = flipHash(h.Root, arg)
		return "root.bitflip"
	case 1:
		h.IdentityRoot = flipHash(h.IdentityRoot, arg)
		return "identityroot.bitflip"
	case 2:
		h.TxHash = flipHash(h.TxHash, arg)
		return "txhash.bitflip"
	case 3:
		if len(h.TxBloom) == 0 {
			h.TxBloom = []byte{byte(arg), 1}
			return "bloom.invented"
		}
		if arg%3 == 0 {
			h.TxBloom = nil
			return "bloom.nil"
		}
		h.TxBloom = flipBit(h.TxBloom, arg)
		return "bloom.bitflip"
	case 4:
		if len(h.IpfsHash) == 0 {
			h.IpfsHash = someCidBytes(byte(arg))
			return "ipfshash.invented"
		}
		if arg%3 == 0 {
			h.IpfsHash = nil
			return "ipfshash.nil"
		}
		h.IpfsHash = flipBit(h.IpfsHash, 40+arg)
		return "ipfshash.bitflip"
	case 5:
		if len(h.TxReceiptsCid) == 0 {
			h.TxReceiptsCid = someCidBytes(byte(arg))
			return "receiptscid.invented"
		}
		if arg%3 == 0 {
			h.TxReceiptsCid = nil
			return "receiptscid.nil"
		}
		h.TxReceiptsCid = flipBit(h.TxReceiptsCid, 40+arg)
		return "receiptscid.bitflip"
	case 6:
		h.Flags ^= types.BlockFlag(1 << uint(arg%7)) // IdentityUpdate..Snapshot
		return fmt.Sprintf("flags.bit%d", arg%7)
	case 7:
		h.Flags ^= types.NewGenesis
		return "flags.newgenesis"
	case 8:
		h.BlockSeed = types.Seed(flipHash(common.Hash(h.BlockSeed), arg))
		return "seed.bitflip"
	case 9:
		h.SeedProof = flipBit(h.SeedProof, arg)
		return "seedproof.bitflip"
	case 10:
		h.SeedProof = nil
		return "seedproof.nil"
	case 11:
		h.ParentHash = flipHash(h.ParentHash, arg)
		return "parent.bitflip"
	case 12:
		if arg%2 == 0 {
			h.Height++
		} else {
			h.Height--
		}
		return "height.pm1"
	case 13:
		cur := h.FeePerGas
		if cur == nil {
			cur = big.NewInt(0)
		}
		h.FeePerGas = new(big.Int).Add(cur, big.NewInt(int64(1+arg%1000)))
		return "feepergas.nonzero-wrong"
	case 14:
		h.Time = prev.Time() + int64(arg%10) // closer than MinBlockDelay (10 s)
		switch (arg / 16) % 6 {
		case 2:
			h.Time = prev.Time() - 1 - int64(arg%100000) // before the parent
			return "time.before-parent"
		case 3:
			h.Time = math.MinInt64 + int64(arg%100000)
			return "time.near-min-int64"
		case 4:
			h.Time = math.MinInt64 + prev.Time() - 1 - int64(arg%100000) // the int64 difference to the parent wraps
			return "time.difference-to-parent-wraps"
		case 5:
			h.Time = math.MaxInt64 - int64(arg)%60000000000 // time.Unix wraps internally
			return "time.near-max-int64"
		}
		return "time.too-close"
	case 15:
		h.Time = now + 121 + int64(arg%600) // beyond MaxFutureBlockOffset (2 min) of the receiver's clock
		return "time.future"
	case 16:
		// ineligible proposer with a VRF proof that is valid for its own key
		signer, err := p256.NewVRFSigner(outsider.Key)
		if err != nil {
			return ""
		}
		seedData := append(prev.Seed().Bytes(), common.ToBytes(prev.Height()+1)...)
		hash, proof := signer.Evaluate(seedData)
		h.ProposerPubKey = outsider.PubK
		h.BlockSeed = types.Seed(hash)
		h.SeedProof = proof
		return "proposer.ineligible-with-valid-vrf"
	case 17:
		h.ProposerPubKey = flipBit(h.ProposerPubKey, 8+arg)
		return "proposerkey.bitflip"
	case 18:
		if oh == nil {
			return ""
		}
		h.Root = oh.Root
		return "root.from-other-block"
	case 19:
		if oh == nil {
			return ""
		}
		h.TxHash, h.IpfsHash, h.TxBloom = oh.TxHash, oh.IpfsHash, oh.TxBloom
		return "txcommitments.from-other-block"
	case 20:
		if oh == nil {
			return ""
		}
		h.BlockSeed, h.SeedProof = oh.BlockSeed, oh.SeedProof
		return "seed.from-other-block"
	case 21, 22:
		if len(b.Body.Transactions) == 0 {
			return ""
		}
		k := arg % len(b.Body.Transactions)
		b.Body.Transactions = append(append([]*types.Transaction{}, b.Body.Transactions[:k]...), b.Body.Transactions[k+1:]...)
		if op%30 == 22 {
			recompute()
			return "body.drop+recomputed"
		}
		return "body.drop"
	case 23, 24:
		if len(b.Body.Transactions) == 0 {
			return ""
		}
		k := arg % len(b.Body.Transactions)
		b.Body.Transactions = append(b.Body.Transactions, b.Body.Transactions[k])
		if op%30 == 24 {
			recompute()
			return "body.duplicate+recomputed"
		}
		return "body.duplicate"
	case 25, 26:
		if len(b.Body.Transactions) < 2 {
			return ""
		}
		k := arg % (len(b.Body.Transactions) - 1)
		txs := append([]*types.Transaction{}, b.Body.Transactions...)
		if txs[k].Hash() == txs[k+1].Hash() {
			return ""
		}
		txs[k], txs[k+1] = txs[k+1], txs[k]
		b.Body.Transactions = txs
		// (a swap WITH recomputed commitments is not a tamper: when the two transactions commute every derived
		// field is consistent and the result is simply another valid block - first version of this check flagged it, wrongly)
		return "body.swap"
	case 27, 28:
		// append a foreign-epoch or unaffordable transaction signed by a real actor
		snd := s.Extra[arg%len(s.Extra)]
		to := s.Ids[0].Addr
		tx := &types.Transaction{AccountNonce: 1, Epoch: uint16(7 + arg%3), Type: types.SendTx, To: &to, Amount: big.NewInt(1), MaxFee: new(big.Int).Lsh(big.NewInt(1), 70)}
		label := "body.append-foreign-epoch"
		if arg%2 == 0 {
			tx.Epoch = 0
			tx.Amount = new(big.Int).Lsh(big.NewInt(1), 200)
			label = "body.append-unaffordable"
		}
		st, err := types.SignTx(tx, snd.Key)
		if err != nil {
			return ""
		}
		b.Body.Transactions = append(append([]*types.Transaction{}, b.Body.Transactions...), st)
		if op%30 == 28 {
			recompute()
			return label + "+recomputed"
		}
		return label
	case 29:
		h.Root, h.IdentityRoot = h.IdentityRoot, h.Root
		return "roots.swapped"
	}
	return ""
}

func someCidBytes(b byte) []byte {
	c, _ := scen.SimCid([]byte{b, 9, 9})
	return c
}

func runC03(r *vfw.Run) {
	o := scen.Opts{MinIdent: 2, MaxIdent: 16, CeremonySoon: true, Skew: true, Contracts: r.Choose("c03.contracts", 2) == 0, SmallShards: true}
	lr := newLedgerRun(r, o, 20, 40)
	s := lr.s
	defer s.Close()
	lr.l.Mix.Adversarial = 8
	if o.Contracts {
		lr.l.Mix.Contracts = 3 // blocks with receipts: the receipts commitment becomes a derived field worth tampering with
	}
	addrs := lr.actors()
	outsider := scen.NewIdent("outsider", 1)
	var blocks []*types.Block
	lr.rejectPred = "C03:honest-original-no-longer-insertable-after-tampered-copies"
	perBlock := 3
	if r.Tier == "thorough" {
		perBlock = 8
	}
	nontrivial := 0
	lr.loop("", func(rr *scen.RoundResult) bool {
		var other *types.Block
		if len(blocks) > 0 {
			other = blocks[r.Choose("c03.other", len(blocks))]
		}
		// a whole block built, with its own key and its own node software, by a replica that is NOT eligible to propose
		// (validated but offline, not validated at all, ...): consistent in every derived field, ineligible proposer
		if r.Choose("c03.ineligible", 3) == 0 {
			var cand []*simnode.Node
			elig := map[int]bool{}
			for _, n := range s.Eligible(lr.nodes) {
				elig[n.ID] = true
			}
			for _, n := range lr.nodes {
				if !elig[n.ID] {
					cand = append(cand, n)
				}
			}
			if len(cand) > 0 {
				bad := cand[r.Choose("c03.ineligible.who", len(cand))]
				prop, pv, _ := s.Propose(bad)
				if pv == nil && prop != nil && prop.Block != nil {
					enc, _ := prop.Block.ToBytes()
					var kind string
					bad.Do(func() {
						st := bad.App.State.GetIdentityState(bad.Addr)
						kind = fmt.Sprintf("identity-state-%d-online-%v", st, bad.App.IdentityState.IsOnline(bad.Addr))
					})
					for _, victim := range lr.nodes {
						if victim == bad {
							continue
						}
						before := victimDigest(victim, addrs, false)
						ierr, pv, st := s.Insert(victim, enc)
						if pv != nil {
							r.Violate("C03:tampered-block-panicked", "block of ineligible proposer (%s) h=%d: %v\n%s", kind, rr.Height, pv, st)
						}
						if ierr == nil {
							r.Violate("C03:tampered-block-accepted/proposer.ineligible-own-block", "node %d accepted block h=%d built by replica %d, which is not eligible to propose (%s)", victim.ID, rr.Height, bad.ID, kind)
						}
						if after := victimDigest(victim, addrs, false); before != after {
							r.Violate("C03:rejected-block-left-side-effects/proposer.ineligible-own-block", "node %d: before %s | after %s", victim.ID, before, after)
						}
					}
					r.Fault("tamper:proposer.ineligible-own-block")
					r.Case(fmt.Sprintf("%x/ineligible/%s", rr.Block.Hash().Bytes()[:8], kind), true)
					nontrivial++
				}
			}
		}
		origState := rr.Proposer.LastApplied // the result of the honest block, as its proposer computed it
		for k := 0; k < perBlock; k++ {
			victim := lr.nodes[r.Choose("c03.victim", len(lr.nodes))]
			op, arg := r.Choose("c03.op", 30), r.Choose("c03.arg", 256)
			cp := new(types.Block)
			if err := cp.FromBytes(rr.Enc); err != nil {
				r.Trouble("decode own block: %v", err)
			}
			var now int64
			victim.Do(func() { now = victim.W.Now().Unix() })
			label := tamper(s, cp, other, rr.Prev, now, op, arg, outsider)
			if label == "" {
				continue
			}
			enc, err := cp.ToBytes()
			if err != nil || string(enc) == string(rr.Enc) {
				continue
			}
			withContent := r.Choose("c03.content", 4) == 0
			before := victimDigest(victim, addrs, withContent)
			ierr, pv, st := s.Insert(victim, enc)
			if pv != nil {
				r.Violate("C03:tampered-block-panicked", "operator %s on block h=%d: %v\n%s", label, rr.Height, pv, st)
			}
			after := victimDigest(victim, addrs, withContent)
			if ierr == nil && label == "body.drop+recomputed" && scen.SameStates(origState, victim.LastApplied) {
				// the dropped transaction left no trace in the block's result (e.g. a fee-free ceremony transaction of an account
				// that the epoch change in the same block sweeps away): the remaining body with its recomputed derived fields is
				// another valid block with the very same result - nothing in it is inconsistent. The victim now sits on that
				// sibling of the honest block, so the run ends here.
				r.Probe("body_without_a_traceless_transaction_accepted(another_valid_block)")
				r.Case(fmt.Sprintf("%x/%s/%d", rr.Block.Hash().Bytes()[:8], label, arg), true)
				return false
			}
			if ierr == nil {
				r.Violate("C03:tampered-block-accepted/"+label, "node %d accepted block h=%d (empty=%v, %d txs) altered by operator %s (arg %d); result of the honest block (A) vs result of the altered one (B):%s", victim.ID, rr.Height, rr.Empty, rr.Txs, label, arg, scen.DiffStates(origState, victim.LastApplied))
			}
			if before != after {
				r.Violate("C03:rejected-block-left-side-effects/"+label, "node %d rejected block h=%d altered by %s (%v) but changed: before %s | after %s", victim.ID, rr.Height, label, ierr, before, after)
			}
			r.Fault("tamper:" + label)
			r.Case(fmt.Sprintf("%x/%s/%d", rr.Block.Hash().Bytes()[:8], label, arg), true)
			nontrivial++
		}
		blocks = append(blocks, rr.Block)
		return true
	}, nil) // the honest original must still be insertable afterwards: loop() inserts it on every replica (TryInsertAll) ...
	_ = crypto.Keccak256
	lr.sample(map[string]interface{}{"tampered_copies": nontrivial})
}
