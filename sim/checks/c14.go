package checks

import (
	"bytes"
	"fmt"
	"math/big"
	"time"

	"github.com/idena-network/idena-go/blockchain/fee"
	"github.com/idena-network/idena-go/blockchain/types"
	"github.com/idena-network/idena-go/blockchain/validation"
	"github.com/idena-network/idena-go/common"
	"github.com/idena-network/idena-go/config"
	"github.com/idena-network/idena-go/core/state"
	"github.com/idena-network/idena-go/stats/collector"

	"verif/sim/scen"
	"verif/sim/seamrt"
	"verif/sim/vfw"
)

func init() {
	vfw.Register(&vfw.Check{
		ID:    "C14",
		Level: "exploration",
		Rule: "one case = one schedule of 5-10 tasks over one real TxPool + chain: 2-4 client tasks submit transactions (in and out of nonce order, duplicates of each other's transactions, internal and external path, priority types), the engine task takes candidate lists, proposes and inserts blocks (ResetTo) - some of them built by a second node of the same operator from same-nonce variants of the pool's transactions -, submitter tasks are made runnable exactly when a block is inserted, a sync task toggles StartSync/StopSync, a query task reads by hash and address; one run in three crosses a validation ceremony and the epoch switch behind it (priority ceremony types next to transfers, transactions signed for the next epoch ahead of the switch, free priority transactions and paid transfers of a quarter to a half of the block gas cap, so that candidate lists reach the cap); every cooperative lock acquisition is a scheduling point decided by the tape; a dead-lock of the tasks is a violation; " +
			"non-trivial = >= 2 blocks with transactions were built from the pool while client tasks were still submitting; distinct by the task-switch sequence (history fingerprint)",
		Real: []string{"core/mempool.TxPool (add, put, Remove, ResetTo, movePendingTxsToExecutable, BuildBlockTransactions, StartSync/StopSync)", "core/mempool block builder", "core/state.NonceCache", "blockchain.ProposeBlock / AddBlock", "blockchain/validation"},
		Stub: []string{"tx keeper file persistence (off, as in upstream tests)", "push tracker loops of the pool (not started)", "gossip of accepted transactions"},
		Assumptions: []string{"candidate lists are taken by the task that also inserts blocks, as the consensus engine does; submissions, sync toggles and queries interleave freely at every lock",
			"data races proper are outside a baton scheduler's reach (it creates happens-before edges everywhere): the race clause is not decided here; atomicity at lock granularity, ordering, deadlock and the stated invariants are"},
		QuickSecs:    60,
		ThoroughSecs: 1200,
		MaxChoices:   400000,
		DeadlockPred: "C14:deadlock",
		Run:          runC14,
	})
}

func runC14(r *vfw.Run) {
	t := r.Tape
	// one run in three crosses a validation ceremony and the epoch switch behind it: priority (ceremony) transaction types,
	// transactions signed for the next epoch, and transactions of a quarter to a half of the block gas cap
	cerem := t.ChooseOpt("c14.ceremony", 3) == 2
	o := scen.Opts{MinIdent: 3, MaxIdent: 8, Versions: nil, CeremonySoon: cerem, Rich: cerem}
	if cerem && t.Choose("c14.bigtxs", 3) != 0 {
		o.Versions = []config.ConsensusVerson{config.ConsensusV11, config.ConsensusV12} // payloads above 3 KB exist from upgrade 11 on
	}
	s := scen.New(r, o)
	defer s.Close()
	// small limits in some runs so that the per-address and global limits are reached
	if t.Choose("c14.limits", 3) == 0 {
		s.Cfg.Mempool.TxPoolAddrExecutableLimit = 2 + t.Choose("c14.execlimit", 3)
		s.Cfg.Mempool.TxPoolAddrQueueLimit = 2 + t.Choose("c14.queuelimit", 3)
		s.Cfg.Mempool.TxPoolQueueSlots = 2 + t.Choose("c14.queueslots", 3)
		s.Cfg.Mempool.TxPoolExecutableSlots = 3 + t.Choose("c14.execslots", 4)
	}
	n := s.AddNode(0, nil)
	// a second node of the same operator (same key, so its blocks are eligible too): it hears about some of the
	// transactions, about variants of others (same sender and nonce, other content), and builds some of the blocks
	peer := s.AddNode(0, nil)
	peerBuilds := t.Choose("c14.peerbuilds", 3) != 0
	w := s.W
	senders := s.AllActors()
	var funded []*scen.Ident
	for _, a := range senders {
		if n.App.State.GetBalance(a.Addr).Cmp(big.NewInt(1e18)) > 0 {
			funded = append(funded, a)
		}
	}
	if len(funded) < 2 {
		r.Case(r.W.Fingerprint(), false)
		return
	}
	w.Preempt = true
	w.PreemptEvery = []int{1, 2, 3, 5, 9, 17, 40}[t.Choose("c14.preemptevery", 7)]
	defer func() { w.Preempt = false }()
	accepted := map[common.Hash]*types.Transaction{}
	included := map[common.Hash]bool{}
	invalidated := map[common.Hash]bool{} // accepted transactions that were invalid against the committed state after some block
	var shared []*types.Transaction       // transactions other clients may re-submit
	syncing := false
	clientsDone := 0
	nclients := 2 + t.Choose("c14.nclients", 3)
	if cerem {
		nclients += t.Choose("c14.nclients.more", 3)
	}
	blocksWithTxs := 0
	blocksWhileSubmitting := 0
	viol := func(pred, format string, a ...interface{}) { r.Violate(pred, format, a...) }

	maxGas := types.MaxBlockSize(s.Cfg.Consensus.EnableUpgrade11)
	// drawPayload: nothing, or a payload that makes the transaction a given fraction of the block gas cap (10 gas per byte)
	drawPayload := func() []byte {
		fr := []int{0, 0, 40, 4, 3, 2}[t.Choose("c14.payload", 6)]
		if n.App.State.ValidationPeriod() >= state.LongSessionPeriod {
			fr = []int{0, 40, 4, 4, 3, 3, 2}[t.Choose("c14.payload.session", 7)] // the sessions are when free priority transactions fill blocks
		}
		if fr == 0 {
			return nil
		}
		return bytes.Repeat([]byte{0x5a}, int(maxGas)/10/fr-200)
	}
	nextEpochNonce := map[common.Address]uint32{}
	// mkKind: kind 1 = evidence transaction, 2 = long-answers transaction (both priority types, free of charge, payload
	// not examined before the first validation), anything else = transfer
	mkKind := func(id *scen.Ident, nonce uint32, epoch uint16, amount int64, kind int, payload []byte) *types.Transaction {
		to := funded[(id.Idx+1)%len(funded)].Addr
		tx := &types.Transaction{AccountNonce: nonce, Epoch: epoch, Type: types.SendTx, To: &to, Amount: big.NewInt(amount), Payload: payload}
		switch kind {
		case 1:
			tx.Type, tx.To, tx.Amount = types.EvidenceTx, nil, nil
		case 2:
			tx.Type, tx.To, tx.Amount = types.SubmitLongAnswersTx, nil, nil
		}
		f := fee.CalculateFee(n.App.ValidatorsCache.NetworkSize(), scen.FeeRate(n), tx)
		tx.MaxFee = new(big.Int).Div(new(big.Int).Mul(f, big.NewInt(11)), big.NewInt(10)) // (a max fee that buys more gas than a block holds is refused)
		st, err := types.SignTx(tx, id.Key)
		if err != nil {
			r.Trouble("sign: %v", err)
		}
		return st
	}
	mkTx := func(id *scen.Ident, nonce uint32, epoch uint16, amount int64) *types.Transaction {
		to := funded[(id.Idx+1)%len(funded)].Addr
		tx := &types.Transaction{AccountNonce: nonce, Epoch: epoch, Type: types.SendTx, To: &to, Amount: big.NewInt(amount)}
		f := fee.CalculateFee(n.App.ValidatorsCache.NetworkSize(), scen.FeeRate(n), tx)
		tx.MaxFee = new(big.Int).Mul(f, big.NewInt(3))
		st, err := types.SignTx(tx, id.Key)
		if err != nil {
			r.Trouble("sign: %v", err)
		}
		return st
	}
	for c := 0; c < nclients; c++ {
		c := c
		id := funded[c%len(funded)]
		w.Spawn(n.Ctx, fmt.Sprintf("client%d", c), func() {
			defer func() { clientsDone++ }()
			ntx := 3 + t.Choose("c14.ntx", 6)
			if cerem {
				ntx += 4 + t.Choose("c14.ntx.more", 8)
			}
			base := n.App.State.GetNonce(id.Addr)
			ep := n.App.State.Epoch()
			seq, switched := uint32(0), false // transactions made after an epoch switch continue the pool's nonce in order
			// each client owns a nonce window of its sender (two clients may share a sender: windows overlap on purpose)
			order := make([]int, ntx)
			for i := range order {
				order[i] = i
			}
			for i := ntx - 1; i > 0; i-- {
				if t.Choose("c14.shuffle", 3) == 0 {
					j := t.Choose("c14.swap", i+1)
					order[i], order[j] = order[j], order[i]
				}
			}
			for _, k := range order {
				var tx *types.Transaction
				if len(shared) > 0 && t.Choose("c14.resubmit", 5) == 0 {
					tx = shared[t.Choose("c14.which", len(shared))]
					r.Probe("client_resubmits_known_tx")
				} else if cerem && n.App.State.Epoch() == ep && t.Choose("c14.nextepoch", 6) == 0 {
					// signed for the next epoch ahead of the switch (valid for the pool, not yet for a block)
					nextEpochNonce[id.Addr]++
					tx = mkTx(id, nextEpochNonce[id.Addr], ep+1, int64(7000+c*100+k))
					r.Probe("client_submits_next_epoch_tx")
				} else {
					nonce := base + uint32(1+k)
					if cerem {
						if cur := n.App.State.Epoch(); cur != ep {
							// the epoch has switched under the client: it goes on behind what the pool knows of its sender
							ep, base, seq, switched = cur, n.App.NonceCache.GetNonce(id.Addr, cur), 0, true
							r.Probe("client_continues_in_new_epoch")
						}
						if !switched && n.App.State.ValidationPeriod() >= state.LongSessionPeriod {
							// from the long session on the client continues in order behind what the pool holds of its sender:
							// runs of transfers with a priority transaction behind them become executable together
							base, seq, switched = n.App.NonceCache.GetNonce(id.Addr, ep), 0, true
						}
						if switched {
							seq++
							nonce = base + seq
						}
					}
					kind := 0
					var payload []byte
					if cerem {
						if n.App.State.ValidationPeriod() != state.NonePeriod {
							kind = t.Choose("c14.txkind", 3) // 0 transfer, 1 evidence, 2 long answers
							r.Probe(fmt.Sprintf("client_submits_in_period_%d_kind_%d", n.App.State.ValidationPeriod(), kind))
						}
						payload = drawPayload()
					}
					if kind != 0 || payload != nil {
						tx = mkKind(id, nonce, ep, int64(1000+c*100+k), kind, payload)
					} else {
						tx = mkTx(id, nonce, ep, int64(1000+c*100+k))
					}
					shared = append(shared, tx)
					if peerBuilds {
						switch t.Choose("c14.topeer", 4) {
						case 0:
							// the peer gets a variant: same sender and nonce, other amount
							v := mkTx(id, base+uint32(1+k), ep, int64(5000+c*100+k))
							peer.Do(func() { peer.Pool.AddExternalTxs(validation.InboundTx, v) })
							r.Fault("variant_with_same_nonce_sent_to_peer")
						case 1, 2:
							cp := tx
							peer.Do(func() { peer.Pool.AddExternalTxs(validation.InboundTx, cp) })
						}
					}
				}
				wasSyncing := syncing
				var err error
				if t.Choose("c14.internal", 4) == 0 {
					err = n.Pool.AddInternalTx(tx)
				} else {
					err = n.Pool.AddExternalTxs(validation.InboundTx, tx)
				}
				if err == nil && !wasSyncing && !syncing {
					accepted[tx.Hash()] = tx
				}
				r.Logf("client%d submits %x type=%d epoch=%d nonce=%d size=%d err=%v syncing=%v", c, tx.Hash().Bytes()[:4], tx.Type, tx.Epoch, tx.AccountNonce, len(tx.Payload), err, wasSyncing)
				if cerem && n.App.State.ValidationPeriod() >= state.LongSessionPeriod {
					// everybody submits at once when the long session opens
					w.Sleep(time.Duration(1+t.Choose("c14.pausems.session", 3000)) * time.Millisecond)
				} else if cerem && t.Choose("c14.longpause", 2) == 0 {
					w.Sleep(time.Duration(1+t.Choose("c14.pauses", 300)) * time.Second) // spread over the ceremony and the epoch behind it
				} else if t.Choose("c14.pause", 3) != 0 {
					w.Sleep(time.Duration(1+t.Choose("c14.pausems", 9000)) * time.Millisecond)
				}
			}
		})
	}
	w.Spawn(n.Ctx, "sync", func() {
		k := t.Choose("c14.nsync", 3)
		for i := 0; i < k; i++ {
			w.Sleep(time.Duration(1+t.Choose("c14.syncwait", 8)) * time.Second)
			syncing = true
			n.Pool.StartSync()
			r.Fault("sync_started")
			w.Sleep(time.Duration(1+t.Choose("c14.synclen", 5)) * time.Second)
			blk := n.Chain.GetBlock(n.Chain.Head.Hash())
			n.Pool.StopSync(blk)
			syncing = false
		}
	})
	w.Spawn(n.Ctx, "query", func() {
		k := 5 + t.Choose("c14.nquery", 10)
		for i := 0; i < k; i++ {
			if len(shared) > 0 {
				tx := shared[t.Choose("c14.q", len(shared))]
				_ = n.Pool.GetTx(tx.Hash())
				snd, _ := types.Sender(tx)
				_ = n.Pool.GetPendingByAddress(snd)
				_ = n.Pool.GetPendingTransaction(false, true, common.MultiShard, true)
			}
			w.Sleep(time.Duration(200+t.Choose("c14.qms", 2000)) * time.Millisecond)
		}
	})
	// ---- engine task = the main task ----
	rounds := 4 + t.Choose("c14.rounds", 6)
	if cerem {
		rounds = 30 + t.Choose("c14.rounds.ceremony", 30)
	}
	for i := 0; i < rounds; i++ {
		if cerem {
			w.Sleep(time.Duration(10+t.Choose("c14.blockdt.ceremony", 80)) * time.Second)
		} else {
			w.Sleep(time.Duration(10+t.Choose("c14.blockdt", 15)) * time.Second)
		}
		if syncing {
			continue // the engine neither proposes nor inserts its own blocks while the node is syncing
		}
		list := n.Pool.BuildBlockTransactions()
		// (a) candidate list invariants against the committed state (only this task commits)
		seen := map[common.Hash]bool{}
		last := map[common.Address]uint32{}
		ep := n.App.State.Epoch()
		var gas uint64
		for j, tx := range list {
			if seen[tx.Hash()] {
				viol("C14:candidate-list-has-duplicate", "tx %x twice in the candidate list (position %d)", tx.Hash().Bytes()[:6], j)
			}
			seen[tx.Hash()] = true
			if tx.Epoch != ep {
				viol("C14:candidate-of-other-epoch", "tx %x epoch %d in the list while the state is in epoch %d", tx.Hash().Bytes()[:6], tx.Epoch, ep)
			}
			snd, _ := types.Sender(tx)
			if _, ok := last[snd]; !ok {
				last[snd] = n.App.State.GetNonce(snd)
				if n.App.State.GetEpoch(snd) < ep {
					last[snd] = 0
				}
			}
			if tx.AccountNonce != last[snd]+1 {
				viol("C14:candidate-nonces-not-consecutive", "sender %x: nonce %d follows %d (committed nonce %d) in the candidate list of %d txs", snd[:6], tx.AccountNonce, last[snd], n.App.State.GetNonce(snd), len(list))
			}
			last[snd] = tx.AccountNonce
			gas += uint64(fee.CalculateGas(tx))
			if gas > maxGas {
				viol("C14:candidate-list-exceeds-gas-cap", "the first %d of %d transactions of the candidate list take %d gas, the block gas cap is %d", j+1, len(list), gas, maxGas)
			}
		}
		if gas > maxGas/2 {
			r.Probe("candidate_list_above_half_of_the_gas_cap")
		}
		{
			prevOrdinary := map[common.Address]bool{}
			for _, tx := range list {
				snd, _ := types.Sender(tx)
				if _, pri := types.CeremonialTxs[tx.Type]; pri {
					if prevOrdinary[snd] {
						r.Probe("candidate_list_with_a_priority_tx_behind_ordinary_ones_of_its_sender")
					}
				} else {
					prevOrdinary[snd] = true
				}
			}
		}
		if gas > maxGas/10*9 {
			r.Probe("candidate_list_above_90_percent_of_the_gas_cap")
		}
		// build and insert a block (ProposeBlock takes its own list; ResetTo runs inside AddBlock)
		// submissions that land exactly while the block is being inserted (ResetTo): tasks made runnable right now
		if t.Choose("c14.burst", 2) == 0 {
			nb := 1 + t.Choose("c14.burstn", 2)
			for b := 0; b < nb; b++ {
				id := funded[len(funded)-1-b%2]
				w.Spawn(n.Ctx, "late-submitter", func() {
					for k := 1 + t.Choose("c14.burstk", 3); k > 0; k-- {
						ep := n.App.State.Epoch()
						nonce := n.App.NonceCache.GetNonce(id.Addr, ep) + 1 // what the RPC layer uses for the next nonce
						tx := mkTx(id, nonce, ep, int64(9000+int(nonce)))
						err := n.Pool.AddExternalTxs(validation.InboundTx, tx)
						r.Logf("late submitter %x nonce=%d err=%v", id.Addr[:2], nonce, err)
					}
				})
			}
			r.Fault("submission_during_block_insertion")
		}
		var p *types.BlockProposal
		foreign := peerBuilds && t.Choose("c14.builder", 2) == 0
		if foreign {
			var perr error
			peer.Do(func() {
				p = peer.Chain.ProposeBlock(nil)
				perr = peer.Chain.AddBlock(p.Block, nil, collector.NewStatsCollector())
			})
			if perr != nil {
				r.Probe("scenario_cut_short:peer-block-rejected")
				break
			}
			r.Fault("block_built_by_peer")
		} else {
			p = n.Chain.ProposeBlock(nil)
		}
		enc, _ := p.Block.ToBytes()
		blk := new(types.Block)
		if err := blk.FromBytes(enc); err != nil {
			r.Trouble("block does not decode: %v", err)
		}
		if err := n.Chain.AddBlock(blk, nil, collector.NewStatsCollector()); err != nil {
			r.Probe("scenario_cut_short:block-rejected")
			r.Note("block rejected (foreign=%v): %v", foreign, err)
			break
		}
		if !foreign {
			var perr error
			peer.Do(func() {
				b2 := new(types.Block)
				b2.FromBytes(enc)
				perr = peer.Chain.AddBlock(b2, nil, collector.NewStatsCollector())
			})
			if perr != nil {
				r.Probe("scenario_cut_short:peer-rejected-block")
				break
			}
		}
		var order []string
		for _, tx := range p.Block.Body.Transactions {
			snd, _ := types.Sender(tx)
			order = append(order, fmt.Sprintf("%x/%d", snd[:2], tx.AccountNonce))
		}
		r.Logf("engine: list=%d block h=%d txs=%d %v", len(list), p.Block.Height(), len(p.Block.Body.Transactions), order)
		if len(p.Block.Body.Transactions) > 0 {
			blocksWithTxs++
			if clientsDone < nclients {
				blocksWhileSubmitting++
			}
		}
		for _, tx := range p.Block.Body.Transactions {
			included[tx.Hash()] = true
		}
		// (b) none of the block's transactions remains
		for _, tx := range p.Block.Body.Transactions {
			if n.Pool.GetTx(tx.Hash()) != nil {
				viol("C14:block-transaction-remains-in-pool", "tx %x of block %d is still in the pool after the block was applied", tx.Hash().Bytes()[:6], p.Block.Height())
			}
		}
		// (c) nothing with a consumed nonce or a past epoch remains (outside validation sessions)
		if n.App.State.ValidationPeriod() == 0 && !syncing {
			ep = n.App.State.Epoch()
			for _, tx := range n.Pool.GetPendingTransaction(true, true, common.MultiShard, false) {
				snd, _ := types.Sender(tx)
				if tx.Epoch < ep {
					viol("C14:past-epoch-transaction-remains", "tx %x epoch %d, state epoch %d", tx.Hash().Bytes()[:6], tx.Epoch, ep)
				}
				if tx.Epoch == ep && n.App.State.GetEpoch(snd) == ep && tx.AccountNonce <= n.App.State.GetNonce(snd) {
					viol("C14:consumed-nonce-transaction-remains", "tx %x of %x nonce %d, committed nonce %d, after block %d", tx.Hash().Bytes()[:6], snd[:6], tx.AccountNonce, n.App.State.GetNonce(snd), p.Block.Height())
				}
			}
		}
		// (c') the by-address view shows nothing with a consumed nonce either
		if n.App.State.ValidationPeriod() == 0 && !syncing {
			ep = n.App.State.Epoch()
			for _, a := range funded {
				for _, tx := range n.Pool.GetPendingByAddress(a.Addr) {
					if tx.Epoch == ep && n.App.State.GetEpoch(a.Addr) == ep && tx.AccountNonce <= n.App.State.GetNonce(a.Addr) && n.Pool.GetTx(tx.Hash()) == nil {
						viol("C14:removed-transaction-still-listed-for-its-sender", "tx %x of %x nonce %d (committed nonce %d) is gone from the pool but still returned by GetPendingByAddress after block %d", tx.Hash().Bytes()[:6], a.Addr[:6], tx.AccountNonce, n.App.State.GetNonce(a.Addr), p.Block.Height())
					}
				}
			}
		}
		// (d) accepted transactions stay retrievable until included or made invalid
		if !syncing {
			ro, err := n.App.Readonly(n.Chain.Head.Height())
			if err == nil {
				minFee := fee.GetFeePerGasForNetwork(ro.ValidatorsCache.NetworkSize())
				type sndEp struct {
					a common.Address
					e uint16
				}
				lost := map[sndEp]uint32{} // lowest nonce of a sender (per epoch) that is legitimately gone
				// "made invalid" is for good: a transfer that a ceremony period made unacceptable (and that the pool dropped)
				// does not have to come back when the period is over
				for h, tx := range accepted {
					if !invalidated[h] && validation.ValidateTx(ro, tx, minFee, validation.MempoolTx) != nil {
						invalidated[h] = true
					}
				}
				gone := func(tx *types.Transaction) bool {
					return included[tx.Hash()] || invalidated[tx.Hash()]
				}
				for _, tx := range accepted {
					if n.Pool.GetTx(tx.Hash()) == nil && gone(tx) {
						snd, _ := types.Sender(tx)
						if cur, ok := lost[sndEp{snd, tx.Epoch}]; !ok || tx.AccountNonce < cur {
							lost[sndEp{snd, tx.Epoch}] = tx.AccountNonce
						}
					}
				}
				for h, tx := range accepted {
					if n.Pool.GetTx(h) != nil || gone(tx) {
						continue
					}
					snd, _ := types.Sender(tx)
					if ln, ok := lost[sndEp{snd, tx.Epoch}]; ok && ln < tx.AccountNonce && !included[h] {
						continue // removed together with an earlier transaction of its sender (same epoch) that became invalid
					}
					viol("C14:accepted-transaction-lost", "tx %x of %x epoch %d nonce %d was accepted, is still valid against the committed state (epoch %d, sender's epoch %d nonce %d) after block %d, is in no block and is no longer retrievable", h.Bytes()[:6], snd[:6], tx.Epoch, tx.AccountNonce, n.App.State.Epoch(), n.App.State.GetEpoch(snd), n.App.State.GetNonce(snd), p.Block.Height())
				}
			}
		}
	}
	// (an earlier version also demanded, at quiescence, that a pooled transaction continuing its sender's committed nonce
	// be offered to the block builder. The pool sometimes promotes such a transaction only with the NEXT block - observed
	// on the unchanged tree - and the property promises what the offered list looks like, not that it is complete:
	// the oracle demanded more than the property states and was removed.)
	r.Case(r.W.Fingerprint(), blocksWhileSubmitting >= 1 && blocksWithTxs >= 2)
	r.FaultN("scheduler_choices", len(r.Tape.Rec))
	if r.Sample == nil {
		r.Sample = map[string]interface{}{"clients": nclients, "rounds": rounds, "blocks_with_txs": blocksWithTxs, "accepted": len(accepted), "included": len(included), "task_switches": w.Switches, "trace_tail": tail(w.Trace, 6)}
	}
	_ = seamrt.GoNever
}
