package checks

import (
	"fmt"
	"os"
	"strings"
	"time"

	"github.com/idena-network/idena-go/common"
	"github.com/idena-network/idena-go/protocol"

	"verif/sim/seamrt"
	"verif/sim/vfw"
)

func init() {
	vfw.Register(&vfw.Check{
		ID:    "C20",
		Level: "exploration",
		Rule: "one case = one schedule: 2-6 simulated peers (tasks) announce 1-5 hashes to the real PushPullManager/DefaultHolder/DefaultPushTracker at drawn times, interleaved at every cooperative lock; the tracker's own loop and gc goroutines run as tasks on the virtual clock, go-cache reads the virtual clock; a responder answers emitted pull requests after drawn latencies or never; " +
			"the emitted pull-request history is checked against the rules and, after announcements stop, bounded liveness and return of the internal sizes to 0; " +
			"non-trivial = some hash had >= 3 announcers and the first asked peer did not serve; distinct by history fingerprint",
		Real:         []string{"protocol.PushPullManager.addPush / makeRequest / loop body", "common/pushpull.DefaultPushTracker (AddPendingPush, RegisterPull, loop, gc, sortedPendingPushes)", "common/pushpull.DefaultHolder", "patrickmn/go-cache on the simulated clock"},
		Stub:         []string{"peers and their answers (simulated responders)", "PushPullManager.loop's blocking channel receive (a pump task drains the same channel and runs the same body)"},
		Assumptions:  []string{"pump granularity is 5 ms of simulated time: 'at once' and 'after the pull delay' are judged with that tolerance", "data races proper are outside a baton scheduler's reach; the race clause is not decided here"},
		QuickSecs:    45,
		ThoroughSecs: 900,
		MaxChoices:   200000,
		Run:          runC20,
	})
}

func runC20(r *vfw.Run) {
	w := r.W
	t := r.Tape
	w.GoPolicy = func(site string) seamrt.GoPolicy {
		if strings.HasPrefix(site, "common/pushpull/tracker.go") {
			return seamrt.GoTask
		}
		return seamrt.GoNever
	}
	pullDelay := time.Duration(300+t.Choose("c20.pulldelay", 3)*1350) * time.Millisecond // 300 ms (votes) .. 3 s (blocks)
	ctx := &seamrt.Ctx{ID: 0, Name: "node", Zone: time.UTC, MapSeed: uint64(1 + t.Choose("c20.mapseed", 1000))}
	var m *protocol.PushPullManager
	var tr interface{ VerifSizes() (int, int) }
	// one run in three uses a holder of the transaction pool's shape: the items live elsewhere, Add is ignored, and
	// nothing tells the tracker that an item has arrived (it has to ask Has)
	poolLike := t.ChooseOpt("c20.poollike", 3) == 2
	items := map[common.Hash128]bool{}
	w.As(ctx, func() {
		if poolLike {
			mm, trk := protocol.VerifNewPushPullPoolLike(pullDelay, func(h common.Hash128) bool { return items[h] })
			m, tr = mm, trk
			return
		}
		mm, trk := protocol.VerifNewPushPull(pullDelay)
		m, tr = mm, trk
	})
	store := func(h common.Hash128, what string) {
		items[h] = true
		m.VerifAddEntry(h, what)
	}
	maxPar := int(protocol.VerifMaxParallelPulls(m))
	w.Preempt = true
	w.PreemptEvery = []int{1, 1, 2, 3, 7}[t.Choose("c20.preemptevery", 5)]
	defer func() { w.Preempt = false }()

	npeers := 2 + t.Choose("c20.npeers", 5)
	nhash := 1 + t.Choose("c20.nhash", 5)
	hashes := make([]common.Hash128, nhash)
	for i := range hashes {
		hashes[i][0] = byte(i + 1)
		hashes[i][5] = byte(t.Choose("c20.hashbyte", 250))
	}
	type ann struct {
		at   time.Duration
		peer string
	}
	type req struct {
		at   time.Duration
		peer string
	}
	announcers := map[common.Hash128][]ann{}
	requests := map[common.Hash128][]req{}
	arrived := map[common.Hash128]time.Duration{}
	known := map[common.Hash128]bool{} // held before any announcement
	serves := map[string]map[common.Hash128]bool{}
	latency := map[string]time.Duration{}
	const eps = 12 * time.Millisecond
	// some items are already held
	for _, h := range hashes {
		if t.Choose("c20.known", 6) == 0 {
			known[h] = true
			w.As(ctx, func() { store(h, "known") })
			arrived[h] = 0
		} else if t.ChooseOpt("c20.broadcast", 4) == 3 {
			// the item comes in by plain broadcast at some moment, asked for or not
			h := h
			w.SpawnAfter(time.Duration(t.Choose("c20.broadcastms", 8000))*time.Millisecond, ctx, "broadcast", func() {
				if _, ok := arrived[h]; !ok {
					arrived[h] = w.Elapsed()
				}
				store(h, "item")
			})
			r.Fault("item_arrives_by_broadcast")
		}
	}
	annDone := 0
	// burst mode: all peers announce at the same instant, so that the announcements interleave at the manager's locks
	burst := t.Choose("c20.burst", 3) == 0
	if burst {
		r.Fault("announcement_burst")
	}
	for p := 0; p < npeers; p++ {
		name := fmt.Sprintf("peer%d", p)
		serves[name] = map[common.Hash128]bool{}
		latency[name] = time.Duration(5+t.Choose("c20.latency", 2500)) * time.Millisecond
		var plan []common.Hash128
		for _, h := range hashes {
			if t.Choose("c20.announces", 3) != 0 {
				plan = append(plan, h)
				serves[name][h] = t.Choose("c20.serves", 3) != 0
				if t.Choose("c20.twice", 5) == 0 {
					plan = append(plan, h)
				}
			}
		}
		start := time.Duration(t.Choose("c20.start", 4000)) * time.Millisecond
		if burst {
			start = time.Duration(t.Choose("c20.burststart", 2)) * 500 * time.Millisecond
		}
		w.SpawnAfter(start, ctx, name, func() {
			defer func() { annDone++ }()
			for _, h := range plan {
				if !burst && t.Choose("c20.gap", 2) == 0 {
					w.Sleep(time.Duration(t.Choose("c20.gapms", 1500)) * time.Millisecond)
				}
				announcers[h] = append(announcers[h], ann{w.Elapsed(), name})
				m.VerifAddPush(name, h)
			}
		})
	}
	// pump + responder (main task)
	deadline := 4*time.Second + time.Duration(npeers+2)*(pullDelay+3*time.Second)
	lastAnn := time.Duration(0)
	for w.Elapsed() < deadline || annDone < npeers {
		var out []protocol.VerifPull
		out = m.VerifPump()
		for _, q := range out {
			q := q
			requests[q.Hash] = append(requests[q.Hash], req{w.Elapsed(), q.Peer})
			if at, ok := arrived[q.Hash]; ok && w.Elapsed() > at+eps {
				r.Violate("C20:pull-requested-after-item-was-stored", "hash %x asked from %s at %v, stored since %v", q.Hash[:2], q.Peer, w.Elapsed(), at)
			}
			if serves[q.Peer][q.Hash] {
				w.SpawnAfter(latency[q.Peer], ctx, "answer", func() {
					if _, ok := arrived[q.Hash]; !ok {
						arrived[q.Hash] = w.Elapsed()
					}
					store(q.Hash, "item")
				})
			} else {
				r.Fault("announcer_never_serves")
			}
		}
		if os.Getenv("C20DBG") != "" && w.Elapsed()%(100*time.Millisecond) == 0 {
			w.Preempt = false
			pe, ac := tr.VerifSizes()
			w.Preempt = true
			fmt.Printf("DBG t=%v pending=%d active=%d live=%v\n", w.Elapsed(), pe, ac, w.LiveTasks())
		}
		if annDone == npeers && lastAnn == 0 {
			lastAnn = w.Elapsed()
		}
		w.Sleep(5 * time.Millisecond)
		if w.Elapsed() > 10*time.Minute {
			r.Trouble("announcing tasks did not finish")
		}
	}
	// ---- history oracle ----
	nontrivial := false
	for _, h := range hashes {
		anns := announcers[h]
		reqs := requests[h]
		if known[h] {
			if len(reqs) > 0 {
				r.Violate("C20:known-item-requested", "hash %x was held before any announcement, yet %d pull requests were issued", h[:2], len(reqs))
			}
			continue
		}
		if len(anns) == 0 {
			continue
		}
		if at0, ok := arrived[h]; ok && len(reqs) == 0 {
			earliest := anns[0].at
			for _, a := range anns {
				if a.at < earliest {
					earliest = a.at
				}
			}
			if at0 <= earliest+eps {
				continue // it came in by broadcast before anybody announced it: nothing to ask for
			}
		}
		if len(reqs) == 0 {
			r.Violate("C20:announced-item-never-requested", "hash %x announced by %d peers, no pull request", h[:2], len(anns))
		}
		first := anns[0]
		for _, a := range anns {
			if a.at < first.at {
				first = a
			}
		}
		if at0, ok := arrived[h]; ok && at0 <= first.at+eps {
			continue // held (by broadcast) when it was first announced; later requests are judged by the on-line oracle
		}
		if reqs[0].at > first.at+eps {
			r.Violate("C20:first-announcer-not-asked-at-once", "hash %x first announced at %v, first request at %v", h[:2], first.at, reqs[0].at)
		}
		at, stored := arrived[h]
		// at most MaxParallelPulls requests within one pull delay, as long as the item has not arrived
		for i := range reqs {
			cnt := 0
			for j := i; j < len(reqs) && reqs[j].at < reqs[i].at+pullDelay-eps; j++ {
				if !stored || reqs[j].at <= at {
					cnt++
				}
			}
			if cnt > maxPar {
				r.Violate("C20:more-parallel-pulls-than-configured", "hash %x: %d requests within one pull delay (%v) starting at %v, configured maximum %d", h[:2], cnt, pullDelay, reqs[i].at, maxPar)
			}
		}
		// bounded liveness: some announcer can serve => stored within (#announcements * pullDelay + slack) after the last announcement
		can := false
		distinct := map[string]bool{}
		for _, a := range anns {
			distinct[a.peer] = true
			if serves[a.peer][h] {
				can = true
			}
		}
		if len(distinct) >= 3 && len(reqs) > 0 && !serves[reqs[0].peer][h] {
			nontrivial = true
		}
		if can {
			lastA := anns[len(anns)-1].at
			for _, a := range anns {
				if a.at > lastA {
					lastA = a.at
				}
			}
			bound := lastA + time.Duration(len(anns)+1)*pullDelay + 3*time.Second
			if !stored {
				asked := []string{}
				for _, q := range reqs {
					asked = append(asked, fmt.Sprintf("%s@%v", q.peer, q.at))
				}
				r.Violate("C20:servable-item-lost", "hash %x: %d announcements by %d peers, at least one of which serves it, requests %v, never stored by %v (pull delay %v)", h[:2], len(anns), len(distinct), asked, w.Elapsed(), pullDelay)
			} else if at > bound {
				r.Violate("C20:servable-item-not-fetched-within-bound", "hash %x stored at %v, bound %v", h[:2], at, bound)
			}
			r.Probe("servable_item_checked")
		} else {
			r.Probe("unservable_item")
		}
	}
	// sizes return to 0 after quiescence + cache expiry (3 min) + tracker gc (5 min, 1 min tick)
	w.Sleep(7*time.Minute + 10*time.Second)
	m.VerifPump()
	pend, act := tr.VerifSizes()
	if pend != 0 || act != 0 || m.VerifPendingPushes() != 0 {
		r.Violate("C20:tracker-state-does-not-drain", "after 7 min of quiescence: queued announcers %d, active pulls %d, manager pending pushes %d", pend, act, m.VerifPendingPushes())
	}
	r.Case(w.Fingerprint(), nontrivial)
	r.FaultN("scheduler_choices", len(t.Rec))
	if r.Sample == nil {
		var hs []string
		for _, h := range hashes {
			hs = append(hs, fmt.Sprintf("%x: %d announcements, %d requests, stored=%v", h[:2], len(announcers[h]), len(requests[h]), arrived[h] > 0 || known[h]))
		}
		r.Sample = map[string]interface{}{"peers": npeers, "pull_delay": pullDelay.String(), "hashes": hs}
	}
}
