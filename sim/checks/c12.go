package checks

import (
	"encoding/binary"
	"fmt"
	"math/big"
	"runtime"
	"strings"
	"time"

	"github.com/idena-network/idena-go/blockchain/attachments"
	"github.com/idena-network/idena-go/blockchain/fee"
	"github.com/idena-network/idena-go/blockchain/types"
	"github.com/idena-network/idena-go/blockchain/validation"
	"github.com/idena-network/idena-go/common"
	"github.com/idena-network/idena-go/core/state/snapshot"
	"github.com/idena-network/idena-go/crypto"
	"github.com/idena-network/idena-go/crypto/ecies"
	"github.com/idena-network/idena-go/log"
	"github.com/idena-network/idena-go/protocol"

	"verif/sim/scen"
	"verif/sim/seamrt"
	"verif/sim/simnode"
	"verif/sim/vfw"
)

func init() {
	vfw.Register(&vfw.Check{
		ID:    "C12",
		Level: "exploration",
		Rule: "one case = one message delivered by the corrupting peer to a victim replica through the real receive path (msgio frame -> protoPeer.ReadMsg -> Decode -> IdenaGossipHandler.handle -> pools / proposals / votes) followed by what the consensus loop does with what was stored (GetProposedBlock -> ValidateBlock, pending proposals, flip queue, AddBlock); " +
			"messages are taken from the running simulated ledger (right epoch, round, senders, nonces) and damaged at frame, payload or object level; non-trivial = the damaged message was decoded and reached a validator or a pool (not refused at the frame); distinct by (message kind, operator, outcome, validation period, tx type)",
		Real:         []string{"protocol.protoPeer.ReadMsg / Decode (s2)", "protocol.IdenaGossipHandler.handle and the broadcast helpers it calls", "protocol.PushPullManager", "pengings.Proposals / Votes", "core/mempool.TxPool and KeysPool", "core/flip.Flipper.addNewFlip", "blockchain.Blockchain.ValidateBlock / AddBlock / ValidateHeader / ValidateProposerProof", "blockchain/validation (all per-type validators)", "blockchain/types codecs and attachments"},
		Stub:         []string{"libp2p stream (in-memory byte queue), peer set of one", "the consensus loop (the harness calls the same Proposals/Blockchain entry points the engine calls)", "Flipper.writeLoop goroutine (same body run synchronously)", "kubo (simipfs)"},
		Assumptions:  []string{"structure-aware mutation in context, not coverage-guided fuzzing: 'for every byte string' is sampled", "allocation attributable to one message is measured as the growth of runtime.MemStats.TotalAlloc over the delivery on the single running task; bound = 64 x frame length + 128 MiB (16 x the transport's frame cap), so only the 'claims gigabytes' class is flagged", "hang = one delivery taking more than 90 s of real time, or the baton scheduler's dead-lock detector firing", "a panic recovered by the code's own gate in TxPool.add ends in a reject and is counted, not flagged"},
		QuickSecs:    60,
		ThoroughSecs: 1500,
		MaxChoices:   400000,
		DeadlockPred: "C12:hang",
		Run:          runC12,
	})
}

type c12msg struct {
	kind    string
	code    uint64
	payload []byte
	txType  int
}

type c12run struct {
	r      *vfw.Run
	s      *scen.Scn
	l      *scen.Ledger
	nodes  []*simnode.Node
	victim *simnode.Node
	rx     *protocol.VerifReceiver
	// honest traffic seen so far
	txs        []*types.Transaction
	blocks     []*types.Block
	msgs       []c12msg
	recovered  int
	delivering bool
	lastAuthor *scen.Ident
}

func runC12(r *vfw.Run) {
	o := scen.Opts{MinIdent: 3, MaxIdent: 14, CeremonySoon: true, MostlyValidated: r.Choose("c12.validated", 2) == 0, Contracts: r.Choose("c12.contracts", 2) == 0}
	s := scen.New(r, o)
	defer s.Close()
	c := &c12run{r: r, s: s}
	c.nodes = startReplicas(r, s)
	c.l = scen.NewLedger(s)
	if o.Contracts {
		c.l.Mix.Contracts = 3
	}
	c.l.Mix.Adversarial = 8
	c.victim = c.nodes[0]
	if r.Choose("cfg.bringonline", 5) != 0 {
		c.l.BringOnline(c.nodes)
	}
	c.makeReceiver()
	// the node's own warnings say why a message was turned down (pengings and pools only log their verdicts)
	log.Root().SetHandler(log.FuncHandler(func(rec *log.Record) error {
		if rec.Lvl <= log.LvlWarn && c.delivering {
			msg := rec.Msg
			for i := 0; i+1 < len(rec.Ctx); i += 2 {
				if k, ok := rec.Ctx[i].(string); ok && k == "err" {
					msg += ": " + c12norm(fmt.Sprint(rec.Ctx[i+1]))
				}
			}
			r.Probe("node_log:" + c12norm(msg))
		}
		return nil
	}))
	defer log.Root().SetHandler(log.DiscardHandler())
	// populated vs. empty state: 0..40 honest rounds before and between attacks
	phases := 1 + r.Choose("c12.phases", 4)
	for ph := 0; ph < phases; ph++ {
		c.seedFlips()
		rounds := []int{0, 1, 3, 8, 20, 40}[r.Choose("c12.rounds", 6)]
		for i := 0; i < rounds; i++ {
			if !c.honestRound() {
				c.finish()
				return
			}
		}
		n := 3 + r.Choose("c12.nattacks", 12)
		for i := 0; i < n; i++ {
			c.attack()
		}
	}
	// the victim is still a working replica: it follows the honest chain
	for i := 0; i < 2; i++ {
		if !c.honestRound() {
			break
		}
	}
	c.finish()
}

// seedFlips lets a few identities submit flips, so that flip keys and key packages of theirs are admissible.
func (c *c12run) seedFlips() {
	if c.r.Choose("c12.seedflips", 3) == 0 {
		return
	}
	for _, id := range c.s.Ids {
		if c.r.Choose("c12.seedflip", 2) == 0 {
			continue
		}
		if tx := c.s.FlipTx(c.nodes[0], id, c.r.Choose("c12.flipk", 50)); tx != nil {
			any := false
			for _, n := range c.nodes {
				if c.s.Submit(n, tx) == nil {
					any = true
				}
			}
			if any {
				c.s.NoteAccepted(tx)
				c.r.Probe("flip_submitted")
			}
		}
	}
}

func (c *c12run) finish() {
	if c.r.Sample == nil {
		c.r.Sample = map[string]interface{}{"identities": len(c.s.Ids), "blocks": c.s.Blocks, "txs_included": c.s.TxIncluded, "final_epoch": c.victim.App.State.Epoch(), "trace_tail": tail(c.r.W.Trace, 12)}
	}
}

func (c *c12run) makeReceiver() {
	v := c.victim
	pv, st := v.Do(func() {
		c.rx = protocol.VerifNewReceiver(v.Chain, v.Props, v.Votes, v.Pool, v.Flipper, v.Bus, v.Keys, "byzantine-peer")
	})
	if pv != nil {
		c.r.Trouble("receiver construction panicked: %v\n%s", pv, st)
	}
}

// honestRound runs one ledger round and records its traffic; the victim learns the block like the others.
func (c *c12run) honestRound() bool {
	rr := c.l.Round(c.nodes)
	if !c.l.Usable(rr) {
		return false
	}
	cert := c.l.BuildCert(c.nodes[0], rr)
	if !c.l.TryInsertAll(c.nodes, rr) {
		return false
	}
	c.l.WriteCert(c.nodes, rr, cert)
	if c.l.Mix.Contracts > 0 {
		c.s.NoteContracts(c.nodes[0], rr.Block)
	}
	c.blocks = append(c.blocks, rr.Block)
	if len(c.blocks) > 12 {
		c.blocks = c.blocks[1:]
	}
	for _, tx := range rr.Block.Body.Transactions {
		c.txs = append(c.txs, tx)
	}
	if len(c.txs) > 40 {
		c.txs = c.txs[len(c.txs)-40:]
	}
	c.victim.Do(func() {
		c.victim.Props.CompleteRound(rr.Height)
		c.victim.Votes.CompleteRound(rr.Height)
	})
	c.r.State(fmt.Sprintf("%d/%x", rr.Height, c.victim.App.State.Root().Bytes()[:6]))
	return true
}

// ---------------- honest messages in context ----------------

func (c *c12run) pickIdent() *scen.Ident {
	all := c.s.AllActors()
	return all[c.r.Choose("c12.ident", len(all))]
}

// contextTx returns a transaction that is valid (or nearly so) on the victim's current state.
func (c *c12run) contextTx() *types.Transaction {
	var tx *types.Transaction
	view := c.nodes[c.r.Choose("c12.view", len(c.nodes))]
	pv, st := view.Do(func() {
		if c.l.Mix.Contracts > 0 && c.r.Choose("c12.ctxcontract", 3) == 0 {
			tx, _ = c.s.GenContractTx(view)
		}
		if tx == nil {
			tx, _ = c.s.GenTx(view, c.l.Mix)
		}
	})
	if pv != nil {
		c.r.Trouble("GenTx panicked: %v\n%s", pv, st)
	}
	if tx == nil && len(c.txs) > 0 {
		tx = c.txs[c.r.Choose("c12.oldtx", len(c.txs))]
	}
	return tx
}

var c12big = []*big.Int{nil, big.NewInt(0), big.NewInt(1), new(big.Int).Mul(common.DnaBase, big.NewInt(7)), new(big.Int).Lsh(big.NewInt(1), 255), new(big.Int).Sub(new(big.Int).Lsh(big.NewInt(1), 256), big.NewInt(1)), new(big.Int).Lsh(big.NewInt(1), 4000)}

func (c *c12run) drawBig(kind string) *big.Int {
	b := c12big[c.r.Choose(kind, len(c12big))]
	if b == nil {
		return nil
	}
	return new(big.Int).Set(b)
}

func (c *c12run) drawBytes(kind string) []byte {
	switch c.r.Choose(kind, 7) {
	case 0:
		return nil
	case 1:
		return []byte{}
	case 2:
		return []byte{byte(c.r.Choose(kind+".b", 256))}
	case 3:
		b := make([]byte, 1+c.r.Choose(kind+".n", 80))
		for i := range b {
			b[i] = byte(c.r.Choose(kind+".v", 256))
		}
		return b
	case 4:
		return make([]byte, 32)
	case 5:
		// a protobuf length-delimited field claiming far more than follows
		return []byte{0x0a, 0xff, 0xff, 0xff, 0xff, 0x0f, 1, 2, 3}
	default:
		b := make([]byte, 200+c.r.Choose(kind+".long", 3000))
		for i := range b {
			b[i] = byte(i * 31)
		}
		return b
	}
}

// somePayload: a well-formed attachment of a drawn kind (possibly not the one the tx type wants).
func (c *c12run) somePayload() []byte { return c.payloadOfKind(c.r.Choose("c12.attach", 14)) }

// c12attachFor: the attachment kind a transaction type expects (-1: none).
var c12attachFor = map[uint16]int{types.ActivationTx: 11, types.SubmitFlipTx: 2, types.SubmitShortAnswersTx: 0, types.SubmitLongAnswersTx: 1, types.OnlineStatusTx: 3, types.BurnTx: 4,
	types.ChangeProfileTx: 5, types.DeleteFlipTx: 6, types.CallContractTx: 7, types.DeployContractTx: 8, types.TerminateContractTx: 9, types.StoreToIpfsTx: 10, types.SubmitAnswersHashTx: 12, types.EvidenceTx: 12}

func (c *c12run) payloadOfKind(kind int) []byte {
	r := c.r
	switch kind {
	case 0:
		return attachments.CreateShortAnswerAttachment(c.drawBytes("c12.att.ans"), uint64(r.Choose("c12.att.rnd", 1000)), byte(r.Choose("c12.att.ct", 3)))
	case 1:
		k, _ := crypto.ToECDSA(crypto.Keccak256([]byte("c12-long-key")))
		var ek *ecies.PrivateKey
		if r.Choose("c12.att.nokey", 4) != 0 {
			ek = ecies.ImportECDSA(k)
		}
		if ek == nil {
			return c.drawBytes("c12.att.raw")
		}
		return attachments.CreateLongAnswerAttachment(c.drawBytes("c12.att.ans"), c.drawBytes("c12.att.proof"), c.drawBytes("c12.att.salt"), ek)
	case 2:
		return attachments.CreateFlipSubmitAttachment(c.drawBytes("c12.att.cid"), uint8(r.Choose("c12.att.pair", 256)))
	case 3:
		return attachments.CreateOnlineStatusAttachment(r.Choose("c12.att.online", 2) == 0)
	case 4:
		return attachments.CreateBurnAttachment(string(c.drawBytes("c12.att.key")))
	case 5:
		return attachments.CreateChangeProfileAttachment(c.drawBytes("c12.att.hash"))
	case 6:
		return attachments.CreateDeleteFlipAttachment(c.drawBytes("c12.att.cid"))
	case 7:
		a := attachments.CreateCallContractAttachment(string(c.drawBytes("c12.att.method")), c.drawBytes("c12.att.arg"), c.drawBytes("c12.att.arg"))
		b, _ := a.ToBytes()
		return b
	case 8:
		var h common.Hash
		h[31] = byte(1 + r.Choose("c12.att.embedded", 8))
		if r.Choose("c12.att.zerohash", 4) == 0 {
			h = common.Hash{}
		}
		a := attachments.CreateDeployContractAttachment(h, c.drawBytes("c12.att.code"), c.drawBytes("c12.att.nonce"), c.drawBytes("c12.att.arg"), c.drawBytes("c12.att.arg"))
		b, _ := a.ToBytes()
		return b
	case 9:
		a := attachments.CreateTerminateContractAttachment(c.drawBytes("c12.att.arg"))
		b, _ := a.ToBytes()
		return b
	case 10:
		return attachments.CreateStoreToIpfsAttachment(c.drawBytes("c12.att.cid"), uint32(r.Choose("c12.att.size", 1<<30)))
	case 11:
		// a public key (activation payload)
		return c.pickIdent().PubK
	case 12:
		return make([]byte, 32)
	default:
		return c.drawBytes("c12.att.raw")
	}
}

// hostileTx assembles a signed transaction from individually decodable parts.
func (c *c12run) hostileTx() *types.Transaction { return c.hostileTxAfter(nil, false) }

// hostileTxAfter: with inBlock, the nonce continues the sender's committed nonce and its transactions in body.
func (c *c12run) hostileTxAfter(body []*types.Transaction, inBlock bool) *types.Transaction {
	r := c.r
	var base *types.Transaction
	var sender *scen.Ident
	if r.Choose("c12.htx.fromctx", 2) == 0 {
		if ctx := c.contextTx(); ctx != nil {
			snd, _ := types.Sender(ctx)
			if id := c.s.IdentOf(snd); id != nil {
				base = &types.Transaction{AccountNonce: ctx.AccountNonce, Epoch: ctx.Epoch, Type: ctx.Type, To: ctx.To, Amount: ctx.Amount, MaxFee: ctx.MaxFee, Tips: ctx.Tips, Payload: ctx.Payload, UseRlp: ctx.UseRlp}
				sender = id
			}
		}
	}
	if base == nil {
		sender = c.fundedIdent()
		var nonce uint32
		var ep uint16
		c.victim.Do(func() { nonce, ep = c.s.NextNonce(c.victim, sender) })
		base = &types.Transaction{AccountNonce: nonce, Epoch: ep, Type: uint16(r.Choose("c12.htx.type", 0x18)), MaxFee: new(big.Int).Mul(common.DnaBase, big.NewInt(50))}
		if r.Choose("c12.htx.to", 3) != 0 {
			a := c.pickIdent().Addr
			base.To = &a
		}
		base.Amount = c.drawBig("c12.htx.amount")
		if r.Choose("c12.htx.noamount", 2) == 0 {
			base.Amount = nil
		}
		base.Payload = c.somePayload()
		if k, ok := c12attachFor[base.Type]; ok && r.Choose("c12.htx.rightattach", 3) != 0 {
			base.Payload = c.payloadOfKind(k)
		}
	}
	// one to three hostile edits
	feeEdited := false
	for k := 1 + r.Choose("c12.htx.nedits", 3); k > 0; k-- {
		switch r.Choose("c12.htx.edit", 12) {
		case 0:
			base.To = nil
		case 1:
			a := c.pickIdent().Addr
			if r.Choose("c12.htx.zeroaddr", 3) == 0 {
				a = common.Address{}
			}
			base.To = &a
		case 2:
			base.Amount = c.drawBig("c12.htx.amount")
		case 3:
			base.MaxFee = c.drawBig("c12.htx.maxfee")
			feeEdited = true
		case 4:
			base.Tips = c.drawBig("c12.htx.tips")
		case 5:
			base.Payload = c.somePayload()
		case 6:
			base.Payload = c.drawBytes("c12.htx.payload")
		case 7:
			base.Type = uint16(r.Choose("c12.htx.type", 0x18))
		case 8:
			if len(base.Payload) > 0 {
				p := append([]byte{}, base.Payload...)
				p[r.Choose("c12.htx.pbyte", len(p))] ^= byte(1 << uint(r.Choose("c12.htx.pbit", 8)))
				base.Payload = p
			}
		case 9:
			if len(base.Payload) > 1 {
				base.Payload = append([]byte{}, base.Payload[:r.Choose("c12.htx.ptrunc", len(base.Payload))]...)
			}
		case 10:
			base.Epoch = uint16(int(base.Epoch) + r.Choose("c12.htx.depoch", 3) - 1)
			base.AccountNonce = uint32(int64(base.AccountNonce) + int64(r.Choose("c12.htx.dnonce", 3)) - 1)
		case 11:
			base.UseRlp = !base.UseRlp
		}
	}
	if inBlock && r.Choose("c12.htx.keepnonce", 6) != 0 {
		var sn uint32
		var ep uint16
		c.victim.Do(func() {
			ep = c.victim.App.State.Epoch()
			if c.victim.App.State.GetEpoch(sender.Addr) == ep {
				sn = c.victim.App.State.GetNonce(sender.Addr)
			}
		})
		for _, tx := range body {
			if snd, _ := types.Sender(tx); snd == sender.Addr && tx.AccountNonce > sn {
				sn = tx.AccountNonce
			}
		}
		base.AccountNonce, base.Epoch = sn+1, ep
	}
	if !feeEdited {
		// a fee that passes the generic checks, so that the per-type validator is reached
		c.victim.Do(func() {
			base.MaxFee = new(big.Int).Mul(fee.CalculateFee(c.victim.App.ValidatorsCache.NetworkSize(), scen.FeeRate(c.victim), base), big.NewInt(2))
		})
	}
	signed, err := types.SignTx(base, sender.Key)
	if err != nil {
		c.r.Trouble("sign: %v", err)
	}
	return signed
}

// flipAuthor prefers an identity that has submitted flips in the current epoch (only their keys are accepted).
func (c *c12run) flipAuthor() *scen.Ident {
	if c.lastAuthor != nil && c.r.Choose("c12.sameauthor", 2) == 0 {
		return c.lastAuthor // a second, different message of the same author
	}
	var id *scen.Ident
	for i := 0; i < 6; i++ {
		id = c.pickIdent()
		ok := false
		c.victim.Do(func() { ok = len(c.victim.App.State.GetIdentity(id.Addr).Flips) > 0 })
		if ok {
			c.r.Probe("key_message_from_flip_author")
			c.lastAuthor = id
			break
		}
	}
	return id
}

// fundedIdent prefers a sender that can pay a fee on the victim's state.
func (c *c12run) fundedIdent() *scen.Ident {
	var id *scen.Ident
	for i := 0; i < 4; i++ {
		id = c.pickIdent()
		ok := false
		c.victim.Do(func() { ok = c.victim.App.State.GetBalance(id.Addr).Cmp(common.DnaBase) > 0 })
		if ok {
			break
		}
	}
	return id
}

// proposalFor lets an eligible replica build a proposal on the current head (without publishing it).
func (c *c12run) proposal() (*types.BlockProposal, *simnode.Node) {
	var el []*simnode.Node
	el = c.s.Eligible(c.nodes)
	if len(el) == 0 {
		return nil, nil
	}
	p := el[c.r.Choose("c12.proposer", len(el))]
	prop, pv, st := c.s.Propose(p)
	if pv != nil {
		c.r.Trouble("propose panicked (C02's business): %v\n%s", pv, st)
	}
	return prop, p
}

func (c *c12run) identOfNode(n *simnode.Node) *scen.Ident { return c.s.IdentOf(n.Addr) }

func signProposal(p *types.BlockProposal, id *scen.Ident) {
	h := crypto.SignatureHash(p)
	p.Signature, _ = crypto.Sign(h[:], id.Key)
}

// hostileProposal: the legitimate proposer's block with a body / header assembled from hostile parts, properly re-signed.
func (c *c12run) hostileProposal() (*types.BlockProposal, string) {
	r := c.r
	prop, p := c.proposal()
	if prop == nil {
		return nil, ""
	}
	id := c.identOfNode(p)
	enc, _ := prop.ToBytes()
	cp := new(types.BlockProposal)
	if err := cp.FromBytes(enc); err != nil {
		c.r.Trouble("honest proposal does not decode: %v", err)
	}
	what := ""
	h := cp.Block.Header.ProposedHeader
	op := r.Choose("c12.hprop", 11)
	if op >= 8 {
		op = 5
	}
	switch op {
	case 0, 1, 2:
		// hostile transactions in the body, tx hash recomputed so that validation reaches them
		k := 1 + r.Choose("c12.hprop.ntx", 3)
		for i := 0; i < k; i++ {
			tx := c.hostileTxAfter(cp.Block.Body.Transactions, true)
			cp.Block.Body.Transactions = append(cp.Block.Body.Transactions, tx)
		}
		h.TxHash = types.DeriveSha(types.Transactions(cp.Block.Body.Transactions))
		what = "hostile-txs-in-body"
	case 3:
		h.FeePerGas = c.drawBig("c12.hprop.fee")
		what = "fee-per-gas"
	case 4:
		h.Upgrade = uint32(r.Choose("c12.hprop.upgrade", 1<<30))
		h.Flags = types.BlockFlag(r.Choose("c12.hprop.flags", 1<<16))
		what = "upgrade-and-flags"
	case 5:
		if r.Choose("c12.hprop.seedordetector", 5) == 0 {
			h.SeedProof = c.drawBytes("c12.hprop.seedproof")
			what = "seed-proof"
			break
		}
		// offline-detector flags with every kind of address, everything else left valid
		h.Flags &^= types.OfflinePropose | types.OfflineCommit
		h.Flags |= []types.BlockFlag{types.OfflinePropose, types.OfflineCommit, types.OfflinePropose | types.OfflineCommit}[r.Choose("c12.hprop.offlineflags", 3)]
		h.OfflineAddr = nil
		if r.Choose("c12.hprop.offlineaddr", 5) != 0 {
			a := c.pickIdent().Addr
			// prefer an identity that is online on the victim
			var online []common.Address
			c.victim.Do(func() {
				for _, x := range c.s.AllActors() {
					if c.victim.App.ValidatorsCache.IsOnlineIdentity(x.Addr) {
						online = append(online, x.Addr)
					}
				}
			})
			if len(online) > 0 && r.Choose("c12.hprop.offlineonline", 4) != 0 {
				a = online[r.Choose("c12.hprop.offlinewho", len(online))]
			}
			h.OfflineAddr = &a
		}
		what = "offline-flags"
	case 6:
		h.IpfsHash = c.drawBytes("c12.hprop.ipfshash")
		h.TxBloom = c.drawBytes("c12.hprop.bloom")
		h.TxReceiptsCid = c.drawBytes("c12.hprop.receipts")
		what = "cids-and-bloom"
	case 7:
		cp.Proof = c.drawBytes("c12.hprop.proof")
		what = "vrf-proof"
	}
	signProposal(cp, id)
	return cp, what
}

// ---------------- the message catalogue ----------------

func (c *c12run) honestMessage() *c12msg {
	r := c.r
	head := c.victim.Chain.Head
	switch r.Choose("c12.kind", 19) {
	case 0, 1:
		if tx := c.contextTx(); tx != nil {
			b, _ := tx.ToBytes()
			return &c12msg{"tx", protocol.VerifNewTx, b, int(tx.Type)}
		}
	case 2:
		tx := c.hostileTx()
		b, _ := tx.ToBytes()
		return &c12msg{"hostile-tx", protocol.VerifNewTx, b, int(tx.Type)}
	case 3:
		if prop, _ := c.proposal(); prop != nil {
			b, _ := prop.ToBytes()
			return &c12msg{"proposal", protocol.VerifProposeBlock, b, -1}
		}
	case 4, 5:
		if prop, what := c.hostileProposal(); prop != nil {
			b, _ := prop.ToBytes()
			return &c12msg{"hostile-proposal/" + what, protocol.VerifProposeBlock, b, -1}
		}
	case 6:
		// proof proposal of an eligible (or not) identity for this or a nearby round
		id := c.pickIdent()
		var proof []byte
		var n *simnode.Node
		for _, x := range c.nodes {
			if x.Addr == id.Addr {
				n = x
			}
		}
		if n != nil {
			n.Do(func() { _, proof = n.Chain.GetProposerSortition() })
		} else {
			proof = c.drawBytes("c12.proof.bytes")
		}
		pp := &types.ProofProposal{Proof: proof, Round: head.Height() + uint64(r.Choose("c12.proof.round", 4))}
		h := crypto.SignatureHash(pp)
		pp.Signature, _ = crypto.Sign(h[:], id.Key)
		b, _ := pp.ToBytes()
		return &c12msg{"proof", protocol.VerifProposeProof, b, -1}
	case 7:
		id := c.pickIdent()
		v := &types.Vote{Header: &types.VoteHeader{Round: head.Height() + uint64(r.Choose("c12.vote.round", 3)), Step: uint8(r.Choose("c12.vote.step", 256)), ParentHash: head.Hash(), VotedHash: head.Hash(), TurnOffline: r.Choose("c12.vote.off", 2) == 0, Upgrade: uint32(r.Choose("c12.vote.upg", 40))}}
		if r.Choose("c12.vote.foreignparent", 4) == 0 {
			v.Header.ParentHash[3] ^= 0xff
		}
		h := crypto.SignatureHash(v)
		v.Signature, _ = crypto.Sign(h[:], id.Key)
		b, _ := v.ToBytes()
		return &c12msg{"vote", protocol.VerifVote, b, -1}
	case 8:
		if len(c.blocks) > 0 {
			bl := c.blocks[r.Choose("c12.block.which", len(c.blocks))]
			b, _ := bl.ToBytes()
			return &c12msg{"block", protocol.VerifBlock, b, -1}
		}
	case 9:
		// flip: a submit-flip transaction with its content
		id := c.pickIdent()
		pub, priv := c.drawBytes("c12.flip.pub"), c.drawBytes("c12.flip.priv")
		var nonce uint32
		var ep uint16
		c.victim.Do(func() { nonce, ep = c.s.NextNonce(c.victim, id) })
		cid := c.drawBytes("c12.flip.cid")
		if r.Choose("c12.flip.rightcid", 3) != 0 {
			data := c12IpfsFlipBytes(pub, priv, id)
			if cc, err := scen.SimCid(data); err == nil {
				cid = cc
			}
		}
		tx := &types.Transaction{AccountNonce: nonce, Epoch: ep, Type: types.SubmitFlipTx, MaxFee: new(big.Int).Mul(common.DnaBase, big.NewInt(50)), Payload: attachments.CreateFlipSubmitAttachment(cid, uint8(r.Choose("c12.flip.pair", 3)))}
		// the transaction inside a flip message is whatever the peer put there: another type (valid on its own), or a
		// submit-flip transaction whose payload is not an attachment
		switch r.ChooseOpt("c12.flip.txkind", 6) {
		case 3:
			to := c.pickIdent().Addr
			tx = &types.Transaction{AccountNonce: nonce, Epoch: ep, Type: types.SendTx, To: &to, Amount: big.NewInt(1), MaxFee: new(big.Int).Mul(common.DnaBase, big.NewInt(50))}
		case 4:
			tx.Payload = c.drawBytes("c12.flip.payload")
		case 5:
			tx.Type = uint16(r.Choose("c12.flip.txtype", 24))
		}
		signed, _ := types.SignTx(tx, id.Key)
		f := &types.Flip{Tx: signed, PublicPart: pub, PrivatePart: priv}
		if r.Choose("c12.flip.notx", 8) == 0 {
			f.Tx = nil
		}
		b, _ := f.ToBytes()
		return &c12msg{"flip", protocol.VerifFlipBody, b, -1}
	case 10:
		id := c.flipAuthor()
		k := &types.PublicFlipKey{Key: c.drawBytes("c12.fkey.key"), Epoch: uint16(int(c.victim.App.State.Epoch()) + r.Choose("c12.fkey.ep", 3) - 1)}
		if r.Choose("c12.fkey.real", 2) == 0 {
			kk, _ := crypto.ToECDSA(crypto.Keccak256([]byte("c12-flip-key"), id.Addr[:]))
			k.Key = crypto.FromECDSA(kk)
		}
		k, _ = types.SignFlipKey(k, id.Key)
		b, _ := k.ToBytes()
		code := uint64(protocol.VerifFlipKey)
		if r.Choose("c12.fkey.batch", 3) == 0 {
			b = c12batch(b, c.drawBytes("c12.fkey.batchitem"))
			code = protocol.VerifBatchFlipKey
		}
		return &c12msg{"flip-key", code, b, -1}
	case 11:
		id := c.flipAuthor()
		k := &types.PrivateFlipKeysPackage{Data: c.drawBytes("c12.kpkg.data"), Epoch: c.victim.App.State.Epoch()}
		if r.Choose("c12.kpkg.otherepoch", 4) == 0 {
			k.Epoch = uint16(int(k.Epoch) + 2*r.Choose("c12.kpkg.ep", 2) - 1)
		}
		k, _ = types.SignFlipKeysPackage(k, id.Key)
		b, _ := k.ToBytes()
		return &c12msg{"key-package", protocol.VerifFlipKeysPackage, b, -1}
	case 12:
		// block range answer (nobody asked: the handler has no batch registered)
		var rb []protocol.VerifRangeBlock
		for _, bl := range c.blocks {
			x := protocol.VerifRangeBlock{Header: bl.Header}
			c.victim.Do(func() {
				x.Cert = c.victim.Chain.GetCertificate(bl.Hash())
				x.IdentityDiff = c.victim.Chain.GetIdentityDiff(bl.Height())
			})
			rb = append(rb, x)
		}
		b, _ := protocol.VerifEncodeBlockRange(uint32(r.Choose("c12.range.batch", 3)), rb)
		return &c12msg{"block-range", protocol.VerifBlocksRange, b, -1}
	case 13:
		m := &snapshot.Manifest{Root: head.Root(), Height: head.Height(), CidV2: c.drawBytes("c12.manifest.cid")}
		b, _ := m.ToBytes()
		return &c12msg{"manifest", protocol.VerifSnapshotManifest, b, -1}
	case 14:
		var h common.Hash128
		copy(h[:], c.drawBytes("c12.push.hash"))
		b := protocol.VerifPushHashBytes(uint8(r.Choose("c12.push.type", 9)), h)
		code := []uint64{protocol.VerifPush, protocol.VerifPullCode, protocol.VerifBatchPush}[r.Choose("c12.push.code", 3)]
		if code == protocol.VerifBatchPush {
			b = c12batch(b, c.drawBytes("c12.push.batchitem"))
		}
		return &c12msg{"push-pull-hash", code, b, -1}
	case 15:
		// requests: block by hash, block ranges, fork ranges
		switch r.Choose("c12.req", 3) {
		case 0:
			return &c12msg{"get-block-by-hash", protocol.VerifGetBlockByHash, protocol.VerifGetBlockByHashBytes(head.Hash().Bytes()[:r.Choose("c12.req.hashlen", 33)]), -1}
		case 1:
			from := uint64(r.Choose("c12.req.from", 50))
			to := []uint64{from, from + 3, from + 100000, 1<<64 - 1, 0}[r.Choose("c12.req.to", 5)]
			return &c12msg{"get-blocks-range", protocol.VerifGetBlocksRange, protocol.VerifGetBlocksRangeBytes(uint32(r.Choose("c12.req.batch", 4)), from, to), -1}
		default:
			var hs [][]byte
			for _, bl := range c.blocks {
				hs = append(hs, bl.Hash().Bytes())
			}
			hs = append(hs, c.drawBytes("c12.req.forkhash"))
			return &c12msg{"get-fork-block-range", protocol.VerifGetForkBlockRange, protocol.VerifGetForkBlockRangeBytes(uint32(r.Choose("c12.req.batch", 4)), hs), -1}
		}
	case 16:
		return &c12msg{"update-shard", protocol.VerifUpdateShardId, protocol.VerifUpdateShardBytes(uint32(r.Choose("c12.shard", 1<<20))), -1}
	case 17:
		// unknown / reserved codes with arbitrary payloads
		code := []uint64{0, 1, 0x14, 0x15, 0xff, 1 << 40}[r.Choose("c12.code", 6)]
		return &c12msg{"other-code", code, c.drawBytes("c12.code.payload"), -1}
	case 18:
		// an honest message seen earlier in this run, replayed later (other round, other epoch)
		if len(c.msgs) > 0 {
			m := c.msgs[r.Choose("c12.replay", len(c.msgs))]
			m.kind = "replayed-" + strings.TrimPrefix(m.kind, "replayed-")
			return &m
		}
	}
	b, _ := (&types.Transaction{}).ToBytes()
	return &c12msg{"empty-tx", protocol.VerifNewTx, b, 0}
}

func c12batch(items ...[]byte) []byte {
	return protocol.VerifBatchBytes(items)
}

func c12IpfsFlipBytes(pub, priv []byte, id *scen.Ident) []byte {
	return protocol.VerifIpfsFlipBytes(pub, priv, id.PubK)
}

// ---------------- damage operators ----------------

func (c *c12run) damageBytes(b []byte, kind string) ([]byte, string) {
	r := c.r
	if len(b) == 0 {
		return []byte{byte(r.Choose(kind+".one", 256))}, "one-byte"
	}
	out := append([]byte{}, b...)
	switch r.Choose(kind, 9) {
	case 0:
		out[r.Choose(kind+".pos", len(out))] ^= byte(1 << uint(r.Choose(kind+".bit", 8)))
		return out, "bit-flip"
	case 1:
		out[r.Choose(kind+".pos", len(out))] = byte(r.Choose(kind+".val", 256))
		return out, "byte-set"
	case 2:
		return out[:r.Choose(kind+".cut", len(out))], "truncate"
	case 3:
		return append(out, c.drawBytes(kind+".tail")...), "append"
	case 4:
		// inflate a varint: set the continuation bits of a drawn position
		p := r.Choose(kind+".pos", len(out))
		ins := []byte{0xff, 0xff, 0xff, 0xff, 0x0f}
		return append(append(append([]byte{}, out[:p]...), ins...), out[p:]...), "length-inflate"
	case 5:
		p := r.Choose(kind+".pos", len(out))
		q := p + r.Choose(kind+".len", len(out)-p+1)
		return append(append([]byte{}, out[:p]...), out[q:]...), "delete-range"
	case 6:
		p := r.Choose(kind+".pos", len(out))
		q := p + r.Choose(kind+".len", len(out)-p+1)
		return append(append(append([]byte{}, out[:q]...), out[p:q]...), out[q:]...), "duplicate-range"
	case 7:
		for k := 2 + r.Choose(kind+".nflips", 6); k > 0; k-- {
			out[r.Choose(kind+".pos", len(out))] ^= byte(1 + r.Choose(kind+".mask", 255))
		}
		return out, "multi-flip"
	default:
		if len(c.msgs) > 0 {
			o := c.msgs[r.Choose(kind+".splice", len(c.msgs))].payload
			if len(o) > 0 {
				p := r.Choose(kind+".pos", len(out))
				q := r.Choose(kind+".opos", len(o))
				return append(append([]byte{}, out[:p]...), o[q:]...), "splice"
			}
		}
		return out, "none"
	}
}

// keyScript: an author publishes a key package (or flip key), then a different one for the same epoch, and the
// peer announces / asks for them through push and pull - all messages intact.
func (c *c12run) keyScript() {
	r := c.r
	id := c.flipAuthor()
	ep := c.victim.App.State.Epoch()
	var hashes []common.Hash128
	for i := 0; i < 2+r.Choose("c12.script.n", 2); i++ {
		if r.Choose("c12.script.pkg", 3) != 0 {
			k := &types.PrivateFlipKeysPackage{Data: c.drawBytes("c12.kpkg.data"), Epoch: ep}
			k, _ = types.SignFlipKeysPackage(k, id.Key)
			b, _ := k.ToBytes()
			hashes = append(hashes, k.Hash128())
			c.deliver(&c12msg{"script-key-package", protocol.VerifFlipKeysPackage, b, -1}, "intact", protocol.VerifFrame(protocol.VerifFlipKeysPackage, b))
		} else {
			kk, _ := crypto.ToECDSA(crypto.Keccak256([]byte("c12-flip-key"), id.Addr[:], []byte{byte(i)}))
			k := &types.PublicFlipKey{Key: crypto.FromECDSA(kk), Epoch: ep}
			k, _ = types.SignFlipKey(k, id.Key)
			b, _ := k.ToBytes()
			c.deliver(&c12msg{"script-flip-key", protocol.VerifFlipKey, b, -1}, "intact", protocol.VerifFrame(protocol.VerifFlipKey, b))
		}
	}
	for _, h := range hashes {
		b := protocol.VerifPushHashBytes(5, h) // key package
		code := []uint64{protocol.VerifPush, protocol.VerifPullCode}[r.Choose("c12.script.pushpull", 2)]
		c.deliver(&c12msg{"script-push-pull-key-package", code, b, -1}, "intact", protocol.VerifFrame(code, b))
	}
}

// attack delivers one message and then does what the node's loops would do with it.
func (c *c12run) attack() {
	r := c.r
	if r.Choose("c12.script", 10) == 0 {
		c.keyScript()
		return
	}
	m := c.honestMessage()
	op := "intact"
	code, payload := m.code, m.payload
	var frame []byte
	switch r.Choose("c12.level", 8) {
	case 0, 1:
		// intact (honest, hostile-by-construction or replayed message)
	case 2, 3, 4:
		var how string
		payload, how = c.damageBytes(payload, "c12.dmg")
		op = "payload:" + how
	case 5:
		// cross-type: the payload under another message code
		codes := []uint64{protocol.VerifProposeBlock, protocol.VerifProposeProof, protocol.VerifVote, protocol.VerifNewTx, protocol.VerifGetBlockByHash, protocol.VerifGetBlocksRange, protocol.VerifBlocksRange, protocol.VerifFlipBody, protocol.VerifFlipKey, protocol.VerifSnapshotManifest, protocol.VerifGetForkBlockRange, protocol.VerifFlipKeysPackage, protocol.VerifPush, protocol.VerifPullCode, protocol.VerifBlock, protocol.VerifUpdateShardId, protocol.VerifBatchPush, protocol.VerifBatchFlipKey, 0x14, 0x01}
		code = codes[r.Choose("c12.xcode", len(codes))]
		op = "cross-type"
	case 6:
		// damage after compression / framing
		f := protocol.VerifFrame(code, payload)
		body, how := c.damageBytes(f[4:], "c12.fdmg")
		frame = make([]byte, 4+len(body))
		binary.BigEndian.PutUint32(frame, uint32(len(body)))
		copy(frame[4:], body)
		switch r.Choose("c12.prefix", 4) {
		case 0:
			binary.BigEndian.PutUint32(frame, uint32(len(body)+1+r.Choose("c12.prefix.more", 1000)))
			how += "+prefix-longer"
		case 1:
			if len(body) > 0 {
				binary.BigEndian.PutUint32(frame, uint32(r.Choose("c12.prefix.less", len(body))))
				how += "+prefix-shorter"
			}
		}
		op = "frame:" + how
	case 7:
		// compressed frame whose header claims a decoded length unrelated to what follows
		claim := []uint64{0, 1, 1 << 16, 1 << 24, 1<<31 - 1, 1 << 31, 1<<32 - 1}[r.Choose("c12.claim", 7)]
		body := []byte{1} // s2
		var vb [10]byte
		body = append(body, vb[:binary.PutUvarint(vb[:], claim)]...)
		body = append(body, c.drawBytes("c12.claim.rest")...)
		frame = make([]byte, 4+len(body))
		binary.BigEndian.PutUint32(frame, uint32(len(body)))
		copy(frame[4:], body)
		op = fmt.Sprintf("frame:decoded-length-claim-%d", claim)
	}
	if frame == nil {
		frame = protocol.VerifFrame(code, payload)
	}
	if op == "intact" && !strings.HasPrefix(m.kind, "hostile") && !strings.HasPrefix(m.kind, "replayed") && len(c.msgs) < 60 {
		c.msgs = append(c.msgs, *m)
	}
	c.deliver(m, op, frame)
}

func (c *c12run) deliver(m *c12msg, op string, frame []byte) {
	r := c.r
	v := c.victim
	period := v.App.State.ValidationPeriod()
	poolBefore := c12poolCount(v)
	label := fmt.Sprintf("%s %s (%d bytes on the wire)", m.kind, op, len(frame))
	r.Logf("deliver %s", label)
	var ms0, ms1 runtime.MemStats
	runtime.ReadMemStats(&ms0)
	t0 := time.Now()
	var calls int
	var herr error
	stage := "handle"
	var got *types.Block
	var verr error
	c.delivering = true
	pv, st := v.Do(func() {
		calls, herr = c.rx.Deliver(frame)
		c.rx.DrainOutgoing()
		stage = "flip-queue"
		v.Flipper.VerifDrain()
		// what the consensus loop does with stored proposals
		stage = "pending-proposals"
		v.Props.ProcessPendingProofs()
		v.Props.ProcessPendingBlocks()
		stage = "validate-proposed-block"
		round := v.Chain.Round()
		if pk := v.Props.GetProposerPubKey(round); pk != nil {
			got, verr = v.Props.GetProposedBlock(round, pk, 150*time.Millisecond)
		}
		c.rx.DrainOutgoing()
	})
	c.delivering = false
	el := time.Since(t0)
	runtime.ReadMemStats(&ms1)
	alloc := ms1.TotalAlloc - ms0.TotalAlloc
	r.Fault("message_" + strings.SplitN(op, ":", 2)[0])
	if pv != nil {
		r.Violate("C12:panic-in-"+stage, "%s: panic escaped: %v\n%s", label, pv, c12trim(st))
	}
	if el > 90*time.Second {
		r.Violate("C12:hang", "%s: delivery took %v of real time", label, el)
	}
	if bound := uint64(64*len(frame)) + 128<<20; alloc > bound {
		// the measured amount is reported in 256 MiB steps: it varies by a few KiB with GC timing, and the text is part of the replayed history
		r.Violate("C12:allocation-out-of-proportion", "%s: at least %d MiB allocated while handling a %d-byte frame (bound %d MiB)", label, (alloc>>28)<<8, len(frame), bound>>20)
	}
	outcome := "rejected-at-frame"
	switch {
	case herr == nil && got != nil:
		outcome = "proposal-validated"
	case herr == nil && verr != nil:
		outcome = "proposal-rejected-by-validation"
	case herr == nil && c12poolCount(v) > poolBefore:
		outcome = "tx-accepted"
	case herr == nil:
		outcome = "handled"
	case strings.Contains(herr.Error(), "Decode") || strings.Contains(herr.Error(), "decode"):
		outcome = "rejected-at-decode"
	case strings.Contains(herr.Error(), "alidation"):
		outcome = "rejected-at-isvalid"
	}
	_ = calls
	if herr != nil {
		r.Probe("handle_error:" + c12norm(herr.Error()))
	}
	if verr != nil {
		r.Probe("block_verdict:" + c12norm(verr.Error()))
	}
	r.Probe("outcome:" + outcome)
	r.Probe("kind:" + strings.SplitN(m.kind, "/", 2)[0])
	nontrivial := herr == nil && op != "intact" || strings.HasPrefix(m.kind, "hostile") && herr == nil
	r.Case(fmt.Sprintf("%s|%s|%s|p%d|t%d", m.kind, op, outcome, period, m.txType), nontrivial)
	// a validated hostile proposal may also be committed by the victim's loop (votes permitting): insert it
	if got != nil && strings.HasPrefix(m.kind, "hostile") && r.Choose("c12.commit", 3) == 0 {
		enc, _ := got.ToBytes()
		cert, _ := c.s.MakeCert(c.nodes[0], v.Chain.Head, got.Header, types.Final)
		ok := true
		for _, n := range c.nodes {
			err, pv, st := c.s.Insert(n, enc)
			if pv != nil {
				r.Violate("C12:panic-in-add-block", "%s: AddBlock of the validated block panicked on node %d: %v\n%s", label, n.ID, pv, c12trim(st))
			}
			if err != nil {
				ok = false
				break
			}
		}
		if ok {
			rr := &scen.RoundResult{Height: got.Height(), Block: got}
			c.l.WriteCert(c.nodes, rr, cert)
			c.victim.Do(func() {
				c.victim.Props.CompleteRound(got.Height())
				c.victim.Votes.CompleteRound(got.Height())
			})
			r.Probe("hostile_block_committed")
		}
	}
}

func c12poolCount(v *simnode.Node) int {
	n := 0
	v.Do(func() { n = len(v.Pool.GetPendingTransaction(true, true, common.MultiShard, false)) })
	return n
}

// c12norm strips numbers and hex from an error text so that it can serve as a counter name.
func c12norm(e string) string {
	if i := strings.Index(e, "&{"); i >= 0 {
		// errResp(code, "%v: %v", msg, err): keep the code and the cause, drop the dumped message
		cause := "refused by IsValid"
		if j := strings.LastIndex(e, "]}: "); j >= 0 {
			cause = e[j+4:]
		}
		e = strings.TrimSpace(e[:i]) + " " + cause
	}
	var b strings.Builder
	for _, ch := range e {
		switch {
		case ch >= '0' && ch <= '9':
			continue
		case ch == '\n':
			b.WriteRune(' ')
		default:
			b.WriteRune(ch)
		}
		if b.Len() > 70 {
			break
		}
	}
	return b.String()
}

func c12trim(st string) string {
	lines := strings.Split(st, "\n")
	var keep []string
	for _, l := range lines {
		if strings.Contains(l, "idena-go") && !strings.HasPrefix(l, "\t") {
			// function lines only, without argument values (addresses differ from run to run)
			if i := strings.LastIndex(l, "("); i > 0 {
				l = l[:i]
			}
			keep = append(keep, l)
		}
		if len(keep) > 24 {
			break
		}
	}
	return strings.Join(keep, "\n")
}

var _ = validation.InboundTx
var _ = seamrt.GoNever
