// Package simnode assembles one replica of the real node core over the simulated
// disk, content store and clock: the same constructors and the same start-up
// sequence as node.NewNodeWithInjections / Node.StartWithHeight, minus libp2p,
// the consensus loop and the RPC server.
package simnode

import (
	"crypto/ecdsa"
	"fmt"
	"os"
	"path/filepath"
	"runtime"
	"sort"
	"strings"
	"time"

	"github.com/idena-network/idena-go/blockchain"
	"github.com/idena-network/idena-go/blockchain/types"
	"github.com/idena-network/idena-go/blockchain/validation"
	"github.com/idena-network/idena-go/common"
	"github.com/idena-network/idena-go/common/eventbus"
	"github.com/idena-network/idena-go/config"
	"github.com/idena-network/idena-go/core/appstate"
	"github.com/idena-network/idena-go/core/ceremony"
	"github.com/idena-network/idena-go/core/flip"
	"github.com/idena-network/idena-go/core/mempool"
	"github.com/idena-network/idena-go/core/state"
	"github.com/idena-network/idena-go/core/upgrade"
	"github.com/idena-network/idena-go/crypto"
	"github.com/idena-network/idena-go/keystore"
	"github.com/idena-network/idena-go/pengings"
	"github.com/idena-network/idena-go/rpc"
	"github.com/idena-network/idena-go/secstore"
	"github.com/idena-network/idena-go/stats/collector"
	"github.com/idena-network/idena-go/subscriptions"

	"verif/sim/seamrt"
	"verif/sim/simdisk"
	"verif/sim/simipfs"
)

// EpochEval records one evaluation of ApplyNewEpoch by this replica (the ceremony clears its cache when the block
// that finishes the validation is inserted, so the result is captured when it is computed).
type EpochEval struct {
	Height     uint64
	Failed     bool
	Identities int
	FromCache  bool
	Text       string
}

// epochText renders an evaluation. The cached 'participated' flag is left out of the comparison: applyOnState reads it
// only before upgrade 12, only for identities that end up Killed, and it changes the state only when less than the whole
// stake is burnt (prior status Human, or Suspended / Zombie older than four epochs) - where it has an effect, a replica
// with another value rejects the block that finishes the validation, which the checks report; where it has none, a
// difference is not a different epoch result. (DESIGN 11.3 records the stale per-height cache behind such differences.)
func epochText(vc *ceremony.ValidationCeremony, h uint64, withParticipated bool) string {
	res, failed := vc.VerifEpochResult(h)
	var addrs []common.Address
	for a := range res {
		addrs = append(addrs, a)
	}
	sort.Slice(addrs, func(i, j int) bool { return string(addrs[i][:]) < string(addrs[j][:]) })
	var sb strings.Builder
	fmt.Fprintf(&sb, "failed=%v\n", failed)
	for _, a := range addrs {
		v := res[a]
		d := "-"
		if v.Delegatee != nil {
			d = fmt.Sprintf("%x", v.Delegatee[:4])
		}
		part := "n/a"
		_ = withParticipated
		fmt.Fprintf(&sb, "%x state=%d prev=%d shortflips=%d shortpoints=%v birthday=%d missed=%v participated=%s delegatee=%s\n", a[:4], v.State, v.PrevState, v.ShortQualifiedFlipsCount, v.ShortFlipPoint, v.Birthday, v.Missed, part, d)
	}
	return sb.String()
}

type notSyncing struct{}

func (notSyncing) IsSyncing() bool { return false }

type EpochFn func(n *Node, height uint64, appState *appstate.AppState, c collector.StatsCollector) types.TotalValidationResult

type Node struct {
	W     *seamrt.World
	Ctx   *seamrt.Ctx
	ID    int
	Key   *ecdsa.PrivateKey
	Addr  common.Address
	Disk  *simdisk.Disk
	Ipfs  *simipfs.Store
	Cfg   *config.Config
	Bus   eventbus.Bus
	App   *appstate.AppState
	Pool  *mempool.TxPool
	Chain *blockchain.Blockchain
	Sec   *secstore.SecStore
	OD    *blockchain.OfflineDetector
	Upg   *upgrade.Upgrader
	Votes *pengings.Votes
	Props *pengings.Proposals
	Dir   string
	Epoch EpochFn
	// Extra lets checks attach further components (ceremony, engine, ...)
	Extra  map[string]interface{}
	Starts int
	// LastApplied is the state the most recent non-empty block application (proposal
	// building or validation) ran on, captured through Blockchain.UseMiddleware.
	LastApplied *appstate.AppState
	// Collector, when set, is handed to AddBlock instead of the default no-op collector.
	Collector collector.StatsCollector
	SM        *state.SnapshotManager
	KeyStore  *keystore.KeyStore
	Keys      *mempool.KeysPool
	Flipper   *flip.Flipper
	// WithCeremony: run the real ValidationCeremony (instead of a scripted epoch function)
	WithCeremony bool
	VC           *ceremony.ValidationCeremony
	EpochEvals   []EpochEval
	SubMgr       *subscriptions.Manager
}

// CloneConfig deep-copies what the node mutates (Upgrader changes cfg.Consensus in place).
func CloneConfig(c *config.Config) *config.Config {
	n := *c
	if c.Consensus != nil {
		cc := *c.Consensus
		n.Consensus = &cc
	}
	if c.GenesisConf != nil {
		g := *c.GenesisConf
		n.GenesisConf = &g
	}
	if c.Validation != nil {
		v := *c.Validation
		n.Validation = &v
	}
	if c.Blockchain != nil {
		b := *c.Blockchain
		n.Blockchain = &b
	}
	if c.Mempool != nil {
		m := *c.Mempool
		n.Mempool = &m
	}
	if c.OfflineDetection != nil {
		o := *c.OfflineDetection
		n.OfflineDetection = &o
	}
	return &n
}

func New(w *seamrt.World, id int, key *ecdsa.PrivateKey, cfg *config.Config, disk *simdisk.Disk, store *simipfs.Store, dir string) *Node {
	n := &Node{W: w, ID: id, Key: key, Addr: crypto.PubkeyToAddress(key.PublicKey), Disk: disk, Ipfs: store, Cfg: CloneConfig(cfg), Dir: dir, Extra: map[string]interface{}{}}
	n.Ctx = &seamrt.Ctx{ID: id, Name: fmt.Sprintf("node%d", id), Zone: time.UTC, MapSeed: uint64(1000 + id)}
	n.Ctx.Install = func() { validation.SetAppConfig(n.Cfg) }
	return n
}

// Do runs f in this node's environment; a panic is returned.
func (n *Node) Do(f func()) (interface{}, string) { return n.W.As(n.Ctx, f) }

// Start performs the production start-up sequence on the node's disk.
// It returns the panic value if start-up panicked (e.g. an injected crash).
func (n *Node) Start() (err error, pv interface{}, stack string) {
	n.Starts++
	pv, stack = n.Do(func() { err = n.start() })
	return
}

func (n *Node) start() error {
	cfg := n.Cfg
	n.Bus = eventbus.New()
	ksDir := filepath.Join(n.Dir, fmt.Sprintf("ks%d", n.ID))
	subDir := filepath.Join(n.Dir, fmt.Sprintf("sub%d", n.ID))
	os.MkdirAll(ksDir, 0755)
	os.MkdirAll(subDir, 0755)
	validation.SetAppConfig(cfg)
	keyStore := keystore.NewKeyStore(ksDir, keystore.StandardScryptN, keystore.StandardScryptP)
	// NewKeyStore registers a finalizer that takes the account cache's lock; it would run on the runtime's
	// finalizer goroutine at an arbitrary moment of a LATER run
	runtime.SetFinalizer(keyStore, nil)
	if n.Sec != nil {
		n.Sec.Destroy()
	}
	n.Sec = secstore.NewSecStore()
	app, err := appstate.NewAppState(n.Disk, n.Bus)
	if err != nil {
		return err
	}
	n.App = app
	n.OD = blockchain.NewOfflineDetector(cfg, n.Disk, app, n.Sec, n.Bus)
	n.Upg = upgrade.NewUpgrader(cfg, app, n.Disk)
	n.Votes = pengings.NewVotes(app, n.Bus, n.OD, n.Upg)
	sc := collector.NewStatsCollector()
	n.Pool = mempool.NewTxPool(app, n.Bus, cfg, sc)
	subManager, err := subscriptions.NewManager(subDir)
	if err != nil {
		return err
	}
	n.KeyStore, n.SubMgr = keyStore, subManager
	cfg.DataDir = filepath.Join(n.Dir, fmt.Sprintf("data%d", n.ID))
	os.MkdirAll(cfg.DataDir, 0755)
	n.Chain = blockchain.NewBlockchain(cfg, n.Disk, n.Pool, app, n.Ipfs, n.Sec, n.Bus, n.OD, keyStore, subManager, n.Upg)
	n.SM = state.NewSnapshotManager(n.Disk, app.State, n.Bus, n.Ipfs, cfg)
	n.Props, _ = pengings.NewProposals(n.Chain, app, n.OD, n.Upg, sc)
	n.Chain.UseMiddleware(func(block *types.Block, a *appstate.AppState) { n.LastApplied = a })

	// --- Node.StartWithHeight ---
	n.Sec.AddKey(crypto.FromECDSA(n.Key))
	if err := n.Chain.InitializeChain(); err != nil {
		return fmt.Errorf("cannot initialize blockchain: %w", err)
	}
	if err := app.Initialize(n.Chain.Head.Height()); err != nil {
		if err := app.Initialize(0); err != nil {
			return fmt.Errorf("cannot initialize state: %w", err)
		}
	}
	if err := n.Chain.EnsureIntegrity(); err != nil {
		return fmt.Errorf("failed to recover blockchain: %w", err)
	}
	n.Chain.ApplyHotfixToState()
	n.Pool.Initialize(n.Chain.Head, n.Sec.GetAddress(), false)
	n.Votes.Initialize(n.Chain.Head)
	n.Keys = mempool.NewKeysPool(n.Disk, app, n.Bus, n.Sec)
	n.Flipper = flip.NewFlipper(n.Disk, n.Ipfs, n.Keys, n.Pool, n.Sec, app, n.Bus)
	n.Flipper.Initialize()
	n.Keys.Initialize(n.Chain.Head)
	if n.WithCeremony {
		if cfg.RPC == nil {
			cfg.RPC = &rpc.Config{}
		}
		n.VC = ceremony.NewValidationCeremony(app, n.Bus, n.Flipper, n.Sec, n.Disk, n.Pool, n.Chain, notSyncing{}, n.Keys, cfg)
		n.VC.Initialize(n.Chain.GetBlock(n.Chain.Head.Hash()))
		vc := n.VC
		n.Chain.ProvideApplyNewEpochFunc(func(h uint64, a *appstate.AppState, c collector.StatsCollector) types.TotalValidationResult {
			_, cached := vc.VerifEpochResult(h)
			_ = cached
			pre, _ := vc.VerifEpochResult(h)
			res := vc.ApplyNewEpoch(h, a, c)
			n.EpochEvals = append(n.EpochEvals, EpochEval{Height: h, Failed: res.Failed, Identities: res.IdentitiesCount, FromCache: pre != nil, Text: epochText(vc, h, !cfg.Consensus.EnableUpgrade12)})
			return res
		})
	}
	if n.Epoch != nil && !n.WithCeremony {
		n.Chain.ProvideApplyNewEpochFunc(func(h uint64, a *appstate.AppState, c collector.StatsCollector) types.TotalValidationResult {
			return n.Epoch(n, h, a, c)
		})
	}
	return nil
}

func (n *Node) Stop() {
	// background tasks of the stopped instance die with it (they are unwound when next scheduled); the next start
	// gets a fresh context with the same node-local environment
	if n.Ctx != nil && n.Starts > 0 {
		old := n.Ctx
		nc := *old
		old.Dead = true
		nc.Dead = false
		n.Ctx = &nc
		n.Ctx.Install = func() { validation.SetAppConfig(n.Cfg) }
	}
	if n.Sec != nil {
		n.Sec.Destroy()
		n.Sec = nil
	}
}

// Head returns the current head (nil-safe).
func (n *Node) Head() *types.Header {
	if n.Chain == nil {
		return nil
	}
	return n.Chain.Head
}
