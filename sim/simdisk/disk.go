// Package simdisk is the simulated durable store: an ordered in-memory KV that
// implements tm-db's DB interface with no goroutines of its own. Every
// Set/Delete (sync or not) and every Batch.Write is one atomic *unit*, appended
// to a journal. A process crash leaves exactly a prefix of the journal.
package simdisk

import (
	"bytes"
	"crypto/sha256"
	"errors"
	"fmt"

	"github.com/google/btree"
	dbm "github.com/tendermint/tm-db"
)

type Op struct {
	Del bool
	K   []byte
	V   []byte
}

// Unit is one atomic write.
type Unit struct {
	Ops  []Op
	Sync bool
}

// Crash is the panic value used to kill a node at a storage write.
type Crash struct{ Unit int }

func (c Crash) String() string { return fmt.Sprintf("simdisk: injected crash before unit %d", c.Unit) }

var ErrInjected = errors.New("simdisk: injected I/O error")
var ErrFull = errors.New("simdisk: no space left on device (injected)")

type item struct {
	k, v []byte
}

func (a *item) Less(b btree.Item) bool { return bytes.Compare(a.k, b.(*item).k) < 0 }

type Disk struct {
	tree    *btree.BTree
	Units   int    // units applied so far
	Journal []Unit // recorded when Record is set
	Record  bool
	CrashAt int // crash (panic Crash) when unit number CrashAt is about to be applied; -1 = never
	FailAt  int // return ErrInjected for this unit number (not applied); -1 = never
	Full    bool
	OnUnit  func(n int, u *Unit)
	Reads   int
	Fired   map[string]int
}

func New() *Disk {
	return &Disk{tree: btree.New(32), CrashAt: -1, FailAt: -1, Fired: map[string]int{}}
}

// FromJournal rebuilds the surviving store from a journal prefix.
func FromJournal(units []Unit) *Disk {
	d := New()
	for i := range units {
		d.applyOps(units[i].Ops)
	}
	d.Units = len(units)
	return d
}

// Clone copies the content (not the journal).
func (d *Disk) Clone() *Disk {
	n := New()
	d.tree.Ascend(func(i btree.Item) bool {
		it := i.(*item)
		n.tree.ReplaceOrInsert(&item{it.k, it.v})
		return true
	})
	n.Units = d.Units
	return n
}

func (d *Disk) Len() int { return d.tree.Len() }

// ApplyUnit applies a recorded unit (used to build the survivor of a crash).
func (d *Disk) ApplyUnit(u Unit) {
	d.applyOps(u.Ops)
	d.Units++
}

// ContentHash digests all keys and values in order.
func (d *Disk) ContentHash() [32]byte {
	h := sha256.New()
	var l [8]byte
	d.tree.Ascend(func(i btree.Item) bool {
		it := i.(*item)
		putLen(l[:], len(it.k))
		h.Write(l[:])
		h.Write(it.k)
		putLen(l[:], len(it.v))
		h.Write(l[:])
		h.Write(it.v)
		return true
	})
	var r [32]byte
	copy(r[:], h.Sum(nil))
	return r
}

func putLen(b []byte, n int) {
	for i := 0; i < 8; i++ {
		b[i] = byte(n >> (8 * i))
	}
}

// Dump returns all pairs (for diffs in reports).
func (d *Disk) Dump() [][2][]byte {
	var r [][2][]byte
	d.tree.Ascend(func(i btree.Item) bool {
		it := i.(*item)
		r = append(r, [2][]byte{it.k, it.v})
		return true
	})
	return r
}

func (d *Disk) applyOps(ops []Op) {
	for _, o := range ops {
		if o.Del {
			d.tree.Delete(&item{k: o.K})
		} else {
			d.tree.ReplaceOrInsert(&item{o.K, o.V})
		}
	}
}

func cp(b []byte) []byte {
	if b == nil {
		return nil
	}
	c := make([]byte, len(b))
	copy(c, b)
	return c
}

func (d *Disk) write(u Unit) error {
	n := d.Units
	if d.CrashAt == n {
		d.Fired["crash"]++
		d.CrashAt = -1
		panic(Crash{n})
	}
	if d.Full {
		d.Fired["disk_full"]++
		return ErrFull
	}
	if d.FailAt == n {
		d.Fired["io_error"]++
		d.FailAt = -1
		return ErrInjected
	}
	if d.OnUnit != nil {
		d.OnUnit(n, &u)
	}
	d.applyOps(u.Ops)
	d.Units++
	if d.Record {
		d.Journal = append(d.Journal, u)
	}
	return nil
}

// ---- dbm.DB ----

func (d *Disk) Get(key []byte) ([]byte, error) {
	if len(key) == 0 {
		return nil, errors.New("key cannot be empty")
	}
	d.Reads++
	if i := d.tree.Get(&item{k: key}); i != nil {
		return cp(i.(*item).v), nil
	}
	return nil, nil
}

func (d *Disk) Has(key []byte) (bool, error) {
	if len(key) == 0 {
		return false, errors.New("key cannot be empty")
	}
	return d.tree.Has(&item{k: key}), nil
}

func (d *Disk) set(key, value []byte, sync bool) error {
	if len(key) == 0 {
		return errors.New("key cannot be empty")
	}
	if value == nil {
		return errors.New("value cannot be nil")
	}
	return d.write(Unit{Ops: []Op{{K: cp(key), V: cp(value)}}, Sync: sync})
}

func (d *Disk) Set(key, value []byte) error     { return d.set(key, value, false) }
func (d *Disk) SetSync(key, value []byte) error { return d.set(key, value, true) }

func (d *Disk) del(key []byte, sync bool) error {
	if len(key) == 0 {
		return errors.New("key cannot be empty")
	}
	return d.write(Unit{Ops: []Op{{Del: true, K: cp(key)}}, Sync: sync})
}
func (d *Disk) Delete(key []byte) error     { return d.del(key, false) }
func (d *Disk) DeleteSync(key []byte) error { return d.del(key, true) }

func (d *Disk) Close() error { return nil }
func (d *Disk) Print() error { return nil }
func (d *Disk) Stats() map[string]string {
	return map[string]string{"units": fmt.Sprint(d.Units), "keys": fmt.Sprint(d.tree.Len())}
}

func (d *Disk) NewBatch() dbm.Batch { return &batch{d: d} }

type batch struct {
	d      *Disk
	ops    []Op
	closed bool
}

func (b *batch) Set(key, value []byte) error {
	if len(key) == 0 {
		return errors.New("key cannot be empty")
	}
	if value == nil {
		return errors.New("value cannot be nil")
	}
	if b.closed {
		return errors.New("batch has been written or closed")
	}
	b.ops = append(b.ops, Op{K: cp(key), V: cp(value)})
	return nil
}
func (b *batch) Delete(key []byte) error {
	if len(key) == 0 {
		return errors.New("key cannot be empty")
	}
	if b.closed {
		return errors.New("batch has been written or closed")
	}
	b.ops = append(b.ops, Op{Del: true, K: cp(key)})
	return nil
}
func (b *batch) write(sync bool) error {
	if b.closed {
		return errors.New("batch has been written or closed")
	}
	err := b.d.write(Unit{Ops: b.ops, Sync: sync})
	b.closed = true
	b.ops = nil
	return err
}
func (b *batch) Write() error     { return b.write(false) }
func (b *batch) WriteSync() error { return b.write(true) }
func (b *batch) Close() error     { b.closed = true; b.ops = nil; return nil }

// iterators are snapshots taken at creation (LevelDB semantics)
type iter struct {
	items      []*item
	pos        int
	start, end []byte
}

func (d *Disk) Iterator(start, end []byte) (dbm.Iterator, error) {
	if (start != nil && len(start) == 0) || (end != nil && len(end) == 0) {
		return nil, errors.New("key cannot be empty")
	}
	it := &iter{start: start, end: end}
	visit := func(i btree.Item) bool { it.items = append(it.items, i.(*item)); return true }
	switch {
	case start == nil && end == nil:
		d.tree.Ascend(visit)
	case start == nil:
		d.tree.AscendLessThan(&item{k: end}, visit)
	case end == nil:
		d.tree.AscendGreaterOrEqual(&item{k: start}, visit)
	default:
		d.tree.AscendRange(&item{k: start}, &item{k: end}, visit)
	}
	return it, nil
}

func (d *Disk) ReverseIterator(start, end []byte) (dbm.Iterator, error) {
	f, err := d.Iterator(start, end)
	if err != nil {
		return nil, err
	}
	it := f.(*iter)
	for i, j := 0, len(it.items)-1; i < j; i, j = i+1, j-1 {
		it.items[i], it.items[j] = it.items[j], it.items[i]
	}
	return it, nil
}

func (it *iter) Domain() ([]byte, []byte) { return it.start, it.end }
func (it *iter) Valid() bool              { return it.pos < len(it.items) }
func (it *iter) Next() {
	if !it.Valid() {
		panic("iterator is invalid")
	}
	it.pos++
}
func (it *iter) Key() []byte {
	if !it.Valid() {
		panic("iterator is invalid")
	}
	return cp(it.items[it.pos].k)
}
func (it *iter) Value() []byte {
	if !it.Valid() {
		panic("iterator is invalid")
	}
	return cp(it.items[it.pos].v)
}
func (it *iter) Error() error { return nil }
func (it *iter) Close() error { return nil }
