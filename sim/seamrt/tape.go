// Package seamrt is the simulator core: choice tape, virtual clock, baton
// scheduler over real goroutines, cooperative locks. It implements the hooks
// exposed by the overlay-only package verifseam.
package seamrt

import "fmt"

// Choice is one recorded decision.
type Choice struct {
	Kind string `json:"k"`
	N    int    `json:"n"`
	V    int    `json:"v"`
}

// Tape is the only source of decisions in a run. In exploration mode it draws
// from splitmix64(seed) and records; in replay mode it reads the recorded values.
// Replay is lenient (used by the minimiser): an exhausted tape yields 0 ("the
// simplest choice"), an out-of-range value is reduced modulo n. The choices
// actually taken are always re-recorded, so the tape stored in a replay file is
// canonical and replays strictly.
type Tape struct {
	s      uint64
	replay []int
	strict []Choice // when non-nil: strict replay, kinds must match
	kinds  []string // lenient replay of a frozen tape: recorded kinds, used by ChooseOpt only
	pos    int
	Rec    []Choice
	// Mismatch is set in strict mode when kind or bound differ (harness determinism bug).
	Mismatch  string
	Limit     int // maximum number of choices (0 = none); exceeding sets Exhausted
	Exhausted bool
}

func NewTape(seed uint64) *Tape { return &Tape{s: seed*0x9e3779b97f4a7c15 + 0x1234567} }

func ReplayTape(vals []int) *Tape { return &Tape{replay: append([]int{}, vals...), s: 1} }

// ReplayTapeKinds is ReplayTape for frozen regression tapes: the recorded kinds let choices that were added to a
// check after the tape was frozen (ChooseOpt) be skipped instead of shifting every later value.
func ReplayTapeKinds(cs []Choice) *Tape {
	t := &Tape{s: 1}
	t.replay = make([]int, len(cs))
	t.kinds = make([]string, len(cs))
	for i, c := range cs {
		t.replay[i], t.kinds[i] = c.V, c.Kind
	}
	return t
}

// ChooseOpt is Choose for a decision added to a check later on: replaying a frozen tape that has another kind
// recorded at this position, it takes the default 0 and consumes nothing.
func (t *Tape) ChooseOpt(kind string, n int) int {
	if t.kinds != nil && (t.pos >= len(t.kinds) || t.kinds[t.pos] != kind) {
		return 0
	}
	return t.Choose(kind, n)
}

func StrictTape(cs []Choice) *Tape {
	t := &Tape{strict: cs, s: 1}
	t.replay = make([]int, len(cs))
	for i, c := range cs {
		t.replay[i] = c.V
	}
	return t
}

func (t *Tape) next() uint64 {
	t.s += 0x9e3779b97f4a7c15
	z := t.s
	z = (z ^ (z >> 30)) * 0xbf58476d1ce4e5b9
	z = (z ^ (z >> 27)) * 0x94d049bb133111eb
	return z ^ (z >> 31)
}

// Choose returns a value in [0,n). By convention 0 is the simplest / fault-free option.
func (t *Tape) Choose(kind string, n int) int {
	if n <= 1 {
		return 0
	}
	var v int
	if t.replay != nil {
		if t.pos < len(t.replay) {
			v = t.replay[t.pos]
			if t.strict != nil {
				c := t.strict[t.pos]
				if (c.Kind != kind || c.N != n) && t.Mismatch == "" {
					t.Mismatch = fmt.Sprintf("choice %d: recorded %s/%d, run asks %s/%d", t.pos, c.Kind, c.N, kind, n)
				}
			}
			if v < 0 {
				v = 0
			}
			v %= n
		} else if t.strict != nil && t.Mismatch == "" {
			t.Mismatch = fmt.Sprintf("choice %d: tape exhausted, run asks %s/%d", t.pos, kind, n)
		}
		t.pos++
	} else {
		v = int(t.next() % uint64(n))
	}
	if t.Limit > 0 && len(t.Rec) >= t.Limit {
		t.Exhausted = true
		return 0
	}
	t.Rec = append(t.Rec, Choice{kind, n, v})
	return v
}

// Bool returns true with probability num/den (choice value 0 = false).
func (t *Tape) Bool(kind string, num, den int) bool {
	if num <= 0 {
		return false
	}
	return t.Choose(kind, den) >= den-num
}

// Values returns the recorded values only.
func (t *Tape) Values() []int {
	r := make([]int, len(t.Rec))
	for i, c := range t.Rec {
		r[i] = c.V
	}
	return r
}
