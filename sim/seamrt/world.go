package seamrt

import (
	"crypto/sha256"
	"encoding/binary"
	"encoding/hex"
	"fmt"
	mrand "math/rand"
	"os"
	"runtime"
	"runtime/debug"
	"sort"
	"strings"
	"sync/atomic"
	"time"

	"github.com/idena-network/idena-go/verifseam"
)

// Ctx is the node-local environment installed whenever one of the node's tasks
// gets the baton.
type Ctx struct {
	ID      int
	Name    string
	MapSeed uint64
	Zone    *time.Location
	Skew    time.Duration
	Install func() // e.g. validation.SetAppConfig(cfg) of this replica
	Dead    bool   // crashed: its tasks are killed when scheduled
}

type GoPolicy int

const (
	GoNever GoPolicy = iota
	GoTask
	GoInline
)

type Task struct {
	goid   int64
	ID     int
	Name   string
	Ctx    *Ctx
	wake   chan struct{}
	done   bool
	killed bool
	wakeAt time.Duration
	waitM  *verifseam.Mutex
	waitR  *verifseam.RWMutex
	waitW  *verifseam.RWMutex
	waitWG *verifseam.WaitGroup
	waitFn func() bool
	Site   string
	PanicV interface{}
	Stack  string
}

type killSentinel struct{}

// IsKill tells whether a recovered panic value is the scheduler unwinding a task.
func IsKill(v interface{}) bool { _, ok := v.(killSentinel); return ok }

// World owns time, tasks and the tape of one simulated run.
type World struct {
	Tape  *Tape
	Base  time.Time
	now   time.Duration
	tasks []*Task
	cur   *Task
	back  chan struct{}
	Seq   uint64
	// Preempt makes every cooperative lock acquisition a scheduling point.
	Preempt bool
	// PreemptEvery thins the scheduling points out: only every n-th lock operation yields (contended ones always park).
	PreemptEvery int
	lockOps      uint64
	GoPolicy     func(site string) GoPolicy
	GoSeen       map[string]int
	// OnTaskPanic decides what a panic escaping a task means. Return true if handled.
	OnTaskPanic func(t *Task, v interface{}, stack string) bool
	MaxSwitches uint64
	Switches    uint64
	Err         error // harness-level trouble (deadlock, step cap, unhandled panic)
	h           [32]byte
	TraceOn     bool
	Trace       []string
	traceCap    int
	rnd         *splitReader
	Stats       map[string]int
	progress    *uint64
	defaultCtx  *Ctx
	lockSites   bool
}

type splitReader struct{ s uint64 }

func (r *splitReader) next() uint64 {
	r.s += 0x9e3779b97f4a7c15
	z := r.s
	z = (z ^ (z >> 30)) * 0xbf58476d1ce4e5b9
	z = (z ^ (z >> 27)) * 0x94d049bb133111eb
	return z ^ (z >> 31)
}
func (r *splitReader) Read(p []byte) (int, error) {
	for i := range p {
		p[i] = byte(r.next())
	}
	return len(p), nil
}
func (r *splitReader) Int63() int64 { return int64(r.next() >> 1) }
func (r *splitReader) Seed(int64)   {}

var progressCounter uint64
var watchdogOnce int32

// StallSeconds is the real-time budget for one baton hold before the watchdog
// declares the harness stuck (exit 2, never a violation).
var StallSeconds = 120

func startWatchdog() {
	if !atomic.CompareAndSwapInt32(&watchdogOnce, 0, 1) {
		return
	}
	go func() {
		last := atomic.LoadUint64(&progressCounter)
		idle := 0
		for {
			time.Sleep(time.Second)
			c := atomic.LoadUint64(&progressCounter)
			if c == last && atomic.LoadInt32(&worldActive) == 1 {
				idle++
				if idle >= StallSeconds {
					buf := make([]byte, 1<<20)
					n := runtime.Stack(buf, true)
					fmt.Fprintf(os.Stderr, "HARNESS-STALL: baton not returned for %d s\n%s\n", idle, buf[:n])
					os.Exit(2)
				}
			} else {
				idle = 0
				last = c
			}
		}
	}()
}

var worldActive int32

func NewWorld(tape *Tape, base time.Time) *World {
	w := &World{Tape: tape, Base: base, back: make(chan struct{}), GoSeen: map[string]int{}, Stats: map[string]int{},
		MaxSwitches: 50_000_000, traceCap: 400}
	w.rnd = &splitReader{s: 0xfeedface}
	w.defaultCtx = &Ctx{ID: -1, Name: "world", Zone: time.UTC, MapSeed: 0x5eed} // never 0: with seed 0 the runtime falls back to its own random map seeds
	return w
}

// Logf appends to the run's history: hashed into the determinism fingerprint and,
// when tracing, kept as text. Never draws from the tape, never reads a real clock.
func (w *World) Logf(format string, args ...interface{}) {
	s := fmt.Sprintf(format, args...)
	hh := sha256.New()
	hh.Write(w.h[:])
	var b [16]byte
	binary.LittleEndian.PutUint64(b[:8], uint64(w.now))
	binary.LittleEndian.PutUint64(b[8:], w.Seq)
	hh.Write(b[:])
	hh.Write([]byte(s))
	copy(w.h[:], hh.Sum(nil))
	if w.TraceOn {
		w.Trace = append(w.Trace, fmt.Sprintf("t=%.3fs seq=%d %s", w.now.Seconds(), w.Seq, s))
	} else {
		if len(w.Trace) >= w.traceCap {
			w.Trace = w.Trace[1:]
		}
		w.Trace = append(w.Trace, fmt.Sprintf("t=%.3fs seq=%d %s", w.now.Seconds(), w.Seq, s))
	}
}

func (w *World) Fingerprint() string { return hex.EncodeToString(w.h[:8]) }

func (w *World) Elapsed() time.Duration { return w.now }

// Now is the simulated wall clock as seen by the running node (its skew applied).
func (w *World) Now() time.Time {
	t := w.Base.Add(w.now)
	if w.cur != nil && w.cur.Ctx != nil {
		t = t.Add(w.cur.Ctx.Skew)
	}
	return t
}

// TrueNow is the simulated clock without skew.
func (w *World) TrueNow() time.Time { return w.Base.Add(w.now) }

func (w *World) Cur() *Task { return w.cur }

func (w *World) CurCtx() *Ctx {
	if w.cur != nil && w.cur.Ctx != nil {
		return w.cur.Ctx
	}
	return w.defaultCtx
}

// Install wires the verifseam hooks to this world. Call Uninstall afterwards.
func (w *World) Install() {
	verifseam.Now = w.Now
	verifseam.Since = func(t time.Time) time.Duration { return w.Now().Sub(t) }
	verifseam.Until = func(t time.Time) time.Duration { return t.Sub(w.Now()) }
	verifseam.Sleep = w.Sleep
	never := func(d time.Duration) *time.Timer { w.Stats["timer_never"]++; return time.NewTimer(1000000 * time.Hour) }
	verifseam.NewTimer = never
	verifseam.After = func(d time.Duration) <-chan time.Time { w.Stats["after_never"]++; return make(chan time.Time) }
	verifseam.AfterFunc = func(d time.Duration, f func()) *time.Timer {
		t := time.NewTimer(1000000 * time.Hour)
		w.SpawnAfter(d, w.CurCtx(), "afterfunc", f)
		return t
	}
	verifseam.NewTicker = func(d time.Duration) *time.Ticker {
		w.Stats["ticker_never"]++
		return time.NewTicker(1000000 * time.Hour)
	}
	verifseam.Tick = func(d time.Duration) <-chan time.Time { return make(chan time.Time) }
	verifseam.Go = w.goHook
	verifseam.Yield = func(site string) { w.YieldAt(site) }
	verifseam.RandReader = w.rnd
	verifseam.MathRandSrc = mrand.New(w.rnd)
	verifseam.Hook = w
	atomic.StoreInt32(&worldActive, 1)
	startWatchdog()
}

func (w *World) Uninstall() {
	atomic.StoreInt32(&worldActive, 0)
	verifseam.Hook = nil
	verifseam.Now = time.Now
	verifseam.Sleep = time.Sleep
	verifseam.Go = func(site string, f func()) { go f() }
	runtime.SimMapSeed(0)
	time.Local = time.UTC
}

func (w *World) goHook(site string, f func()) {
	w.GoSeen[site]++
	pol := GoNever
	if w.GoPolicy != nil {
		pol = w.GoPolicy(site)
	}
	switch pol {
	case GoInline:
		f()
	case GoTask:
		w.SpawnAfter(0, w.CurCtx(), "go:"+site, f)
	}
}

// Spawn creates a task that becomes runnable immediately.
func (w *World) Spawn(ctx *Ctx, name string, f func()) *Task { return w.SpawnAfter(0, ctx, name, f) }

// SpawnAfter creates a task that becomes runnable after d of simulated time.
func (w *World) SpawnAfter(d time.Duration, ctx *Ctx, name string, f func()) *Task {
	t := &Task{ID: len(w.tasks), Name: name, Ctx: ctx, wake: make(chan struct{}), wakeAt: w.now + d}
	w.tasks = append(w.tasks, t)
	go func() {
		t.goid = runtime.SimGoid()
		<-t.wake
		defer func() {
			if r := recover(); r != nil {
				if _, ok := r.(killSentinel); !ok {
					t.PanicV = r
					t.Stack = string(debug.Stack())
				}
			}
			t.done = true
			w.back <- struct{}{}
		}()
		if t.killed {
			return
		}
		f()
	}()
	return t
}

func (w *World) park() {
	t := w.cur
	w.back <- struct{}{}
	<-t.wake
	if t.killed {
		panic(killSentinel{})
	}
}

// Sleep suspends the running task for d of simulated time.
func (w *World) Sleep(d time.Duration) {
	t := w.task()
	if t == nil && w.cur != nil {
		return // a goroutine the simulator does not schedule: its sleeps do not move the simulated clock
	}
	if t == nil {
		// outside any task (harness set-up): just advance the clock
		if d > 0 {
			w.now += d
		}
		return
	}
	if d < 0 {
		d = 0
	}
	t.wakeAt = w.now + d
	w.park()
}

// YieldAt is a voluntary scheduling point.
func (w *World) YieldAt(site string) {
	t := w.task()
	if t == nil {
		return
	}
	t.Site = site
	w.park()
}

// WaitFor parks the running task until cond() holds (evaluated by the scheduler
// while nobody runs) or the simulated timeout passes. Returns cond().
func (w *World) WaitFor(cond func() bool, timeout time.Duration) bool {
	t := w.task()
	if t == nil {
		return cond()
	}
	if cond() {
		return true
	}
	deadline := w.now + timeout
	t.waitFn = func() bool { return cond() || w.now >= deadline }
	t.wakeAt = 0
	w.park()
	t.waitFn = nil
	return cond()
}

func (w *World) runnable(t *Task) bool {
	if t.done {
		return false
	}
	if t.killed || (t.Ctx != nil && t.Ctx.Dead) {
		return true // will be unwound
	}
	if t.wakeAt > w.now {
		return false
	}
	switch {
	case t.waitM != nil:
		return t.waitM.Owner == 0
	case t.waitR != nil:
		return t.waitR.Writer == 0
	case t.waitW != nil:
		return t.waitW.Writer == 0 && t.waitW.Readers == 0
	case t.waitWG != nil:
		return t.waitWG.N <= 0
	case t.waitFn != nil:
		return t.waitFn()
	}
	return true
}

func (w *World) describeBlocked() string {
	var sb strings.Builder
	for _, t := range w.tasks {
		if t.done {
			continue
		}
		what := "ready"
		switch {
		case t.wakeAt > w.now:
			what = fmt.Sprintf("sleeping until %.3fs", t.wakeAt.Seconds())
		case t.waitM != nil:
			what = fmt.Sprintf("Lock owner=task%d", t.waitM.Owner-1)
		case t.waitR != nil:
			what = fmt.Sprintf("RLock writer=task%d", t.waitR.Writer-1)
		case t.waitW != nil:
			what = fmt.Sprintf("WLock writer=task%d readers=%d", t.waitW.Writer-1, t.waitW.Readers)
		case t.waitWG != nil:
			what = fmt.Sprintf("WaitGroup n=%d", t.waitWG.N)
		case t.waitFn != nil:
			what = "WaitFor"
		}
		fmt.Fprintf(&sb, "  task%d %s: %s at %s\n", t.ID, t.Name, what, t.Site)
	}
	return sb.String()
}

// DeadlockError is returned in World.Err when live tasks exist, none can run and
// no timer is pending.
type DeadlockError struct{ Detail string }

func (e *DeadlockError) Error() string { return "deadlock: all live tasks blocked\n" + e.Detail }

func (w *World) switchTo(t *Task) {
	w.Seq++
	w.Switches++
	atomic.AddUint64(&progressCounter, 1)
	ctx := t.Ctx
	if ctx == nil {
		ctx = w.defaultCtx
	}
	if ctx.Dead && !t.killed {
		t.killed = true
	}
	runtime.SimMapSeed(ctx.MapSeed)
	runtime.SimMapSalt(w.Seq)
	if ctx.Zone != nil {
		time.Local = ctx.Zone
	}
	if ctx.Install != nil {
		ctx.Install()
	}
	w.cur = t
	t.wake <- struct{}{}
	<-w.back
	w.cur = nil
	if t.done && t.PanicV != nil {
		handled := false
		if w.OnTaskPanic != nil {
			handled = w.OnTaskPanic(t, t.PanicV, t.Stack)
		}
		if !handled && w.Err == nil {
			w.Err = fmt.Errorf("unhandled panic in task %s: %v\n%s", t.Name, t.PanicV, t.Stack)
		}
	}
}

// Run executes main as the first task and schedules until it ends; remaining
// tasks are then unwound. Returns World.Err.
func (w *World) Run(ctx *Ctx, main func()) error {
	mt := w.Spawn(ctx, "main", main)
	var rs []*Task
	for !mt.done && w.Err == nil {
		rs = rs[:0]
		for _, t := range w.tasks {
			if w.runnable(t) {
				rs = append(rs, t)
			}
		}
		if len(rs) == 0 {
			// advance the clock to the next timer
			next := time.Duration(-1)
			for _, t := range w.tasks {
				if !t.done && t.wakeAt > w.now && (next < 0 || t.wakeAt < next) {
					next = t.wakeAt
				}
			}
			if next < 0 {
				w.Err = &DeadlockError{w.describeBlocked()}
				break
			}
			w.now = next
			continue
		}
		var t *Task
		if len(rs) == 1 {
			t = rs[0]
		} else {
			t = rs[w.Tape.Choose("sched", len(rs))]
			w.hashSwitch(t.ID)
		}
		w.switchTo(t)
		if w.Switches > w.MaxSwitches {
			w.Err = fmt.Errorf("step cap: %d task switches", w.Switches)
		}
		if w.Tape.Mismatch != "" {
			w.Err = fmt.Errorf("tape mismatch: %s", w.Tape.Mismatch)
		}
	}
	w.KillAll()
	return w.Err
}

func (w *World) hashSwitch(id int) {
	hh := sha256.New()
	hh.Write(w.h[:])
	hh.Write([]byte{byte(id), byte(id >> 8), 's'})
	copy(w.h[:], hh.Sum(nil))
}

// KillAll unwinds every unfinished task (their deferred functions run under the baton).
func (w *World) KillAll() {
	for i := 0; i < len(w.tasks); i++ {
		t := w.tasks[i]
		if t.done {
			continue
		}
		t.killed = true
		w.cur = t
		t.wake <- struct{}{}
		<-w.back
		w.cur = nil
	}
}

// KillCtx unwinds all tasks of one node (crash). Must be called from a task of
// another context or from the scheduler side; the calling task is skipped.
func (w *World) KillCtx(ctx *Ctx) {
	ctx.Dead = true
}

// LiveTasks lists unfinished tasks (for reports).
func (w *World) LiveTasks() []string {
	var r []string
	for _, t := range w.tasks {
		if !t.done {
			r = append(r, t.Name)
		}
	}
	sort.Strings(r)
	return r
}

// ---- verifseam.SyncHook ----

func (w *World) site(t *Task) {
	if w.lockSites {
		var pcs [8]uintptr
		n := runtime.Callers(4, pcs[:])
		fr := runtime.CallersFrames(pcs[:n])
		var sb strings.Builder
		for i := 0; i < 4; i++ {
			f, more := fr.Next()
			fmt.Fprintf(&sb, "%s:%d ", shortFile(f.File), f.Line)
			if !more {
				break
			}
		}
		t.Site = sb.String()
	}
}

func shortFile(s string) string {
	if i := strings.LastIndex(s, "/"); i >= 0 {
		if j := strings.LastIndex(s[:i], "/"); j >= 0 {
			return s[j+1:]
		}
	}
	return s
}

// LockSites makes parked lockers record their call site (slower; used on replay).
func (w *World) LockSites(on bool) { w.lockSites = on }

// ForeignOps counts seam calls made by goroutines that are not the running task (finalizers, goroutines of
// third-party code): they bypass the world instead of being mistaken for the task that holds the baton.
var ForeignOps uint64

// task returns the running task if the caller IS its goroutine, else nil.
func (w *World) task() *Task {
	t := w.cur
	if t != nil && t.goid != 0 && t.goid != runtime.SimGoid() {
		atomic.AddUint64(&ForeignOps, 1)
		return nil
	}
	return t
}

var lockTrace = os.Getenv("VERIF_LOCKTRACE") != ""

func (w *World) preempt() bool {
	if !w.Preempt {
		return false
	}
	w.lockOps++
	if lockTrace {
		// debugging aid (VERIF_LOCKTRACE=1): every lock operation with its call site goes into the history
		var pcs [10]uintptr
		n := runtime.Callers(3, pcs[:])
		fr := runtime.CallersFrames(pcs[:n])
		var sb strings.Builder
		for i := 0; i < 6; i++ {
			f, more := fr.Next()
			fmt.Fprintf(&sb, "%s:%d ", shortFile(f.File), f.Line)
			if !more {
				break
			}
		}
		name := "?"
		if w.cur != nil {
			name = w.cur.Name
		}
		w.Logf("lockop %d task=%s %s", w.lockOps, name, sb.String())
	}
	return w.PreemptEvery <= 1 || w.lockOps%uint64(w.PreemptEvery) == 0
}

func (w *World) Lock(m *verifseam.Mutex) {
	t := w.task()
	if t == nil {
		m.Owner = -1
		return
	}
	if t.killed {
		return
	}
	if m.Owner != 0 || w.preempt() {
		t.waitM = m
		w.site(t)
		w.park()
		t.waitM = nil
	}
	m.Owner = int32(t.ID + 1)
}

func (w *World) TryLock(m *verifseam.Mutex) bool {
	if m.Owner != 0 {
		return false
	}
	if w.cur == nil {
		m.Owner = -1
	} else {
		m.Owner = int32(w.cur.ID + 1)
	}
	return true
}

func (w *World) Unlock(m *verifseam.Mutex) { m.Owner = 0 }

func (w *World) RLock(m *verifseam.RWMutex) {
	t := w.task()
	if t == nil || t.killed {
		m.Readers++
		return
	}
	if m.Writer != 0 || w.preempt() {
		t.waitR = m
		w.site(t)
		w.park()
		t.waitR = nil
	}
	m.Readers++
}

func (w *World) RUnlock(m *verifseam.RWMutex) {
	if m.Readers > 0 {
		m.Readers--
	}
}

func (w *World) WLock(m *verifseam.RWMutex) {
	t := w.task()
	if t == nil {
		m.Writer = -1
		return
	}
	if t.killed {
		return
	}
	if m.Writer != 0 || m.Readers != 0 || w.preempt() {
		t.waitW = m
		w.site(t)
		w.park()
		t.waitW = nil
	}
	m.Writer = int32(t.ID + 1)
}

func (w *World) WUnlock(m *verifseam.RWMutex) { m.Writer = 0 }

func (w *World) WgAdd(g *verifseam.WaitGroup, n int) { g.N += n }

func (w *World) WgWait(g *verifseam.WaitGroup) {
	t := w.task()
	if t == nil || t.killed {
		return
	}
	if g.N > 0 {
		t.waitWG = g
		w.site(t)
		w.park()
		t.waitWG = nil
	}
}

// As runs f inside the running task with the environment of ctx (node-local map
// seed, zone, skew, config). A panic in f is returned, not propagated.
func (w *World) As(ctx *Ctx, f func()) (pv interface{}, stack string) {
	t := w.cur
	var prev *Ctx
	if t != nil {
		prev = t.Ctx
		t.Ctx = ctx
	}
	w.Seq++
	w.installEnv(ctx)
	defer func() {
		if r := recover(); r != nil {
			if _, killed := r.(killSentinel); killed {
				panic(r) // the task is being unwound (crash of its node, dead-lock, end of run): not a panic of f
			}
			pv = r
			stack = string(debug.Stack())
		}
		if t != nil {
			t.Ctx = prev
		}
		w.Seq++
		w.installEnv(prev)
	}()
	f()
	return
}

func (w *World) installEnv(ctx *Ctx) {
	if ctx == nil {
		ctx = w.defaultCtx
	}
	runtime.SimMapSeed(ctx.MapSeed)
	runtime.SimMapSalt(w.Seq)
	if ctx.Zone != nil {
		time.Local = ctx.Zone
	}
	if ctx.Install != nil {
		ctx.Install()
	}
}

// Advance moves the simulated clock forward without running anything (used by
// drivers between rounds; pending timers that fall due become runnable).
func (w *World) Advance(d time.Duration) {
	if d > 0 {
		w.now += d
	}
}
