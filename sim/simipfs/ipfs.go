// Package simipfs is the simulated content store behind ipfs.Proxy: a per-node
// map cid -> bytes plus a simulated fetch from the other nodes of the run.
// CIDs are the repository's own raw-leaf sha2-256 CIDv1 (as in its memoryIpfs).
package simipfs

import (
	"context"
	"errors"
	"io"
	"os"

	"github.com/idena-network/idena-go/ipfs"
	"github.com/ipfs/go-cid"
	core2 "github.com/libp2p/go-libp2p-core"
	pubsub "github.com/libp2p/go-libp2p-pubsub"
	"github.com/multiformats/go-multihash"
)

// Net is the set of stores of one simulated run (content routing stub).
type Net struct {
	Stores []*Store
	// FetchFail, when set, decides whether a remote fetch fails (fault hook).
	FetchFail func(from *Store, c cid.Cid) bool
	Fetches   int
	Failed    int
	// Mutate, when set, may alter the bytes a store receives from a peer (Byzantine provider).
	Mutate func(to *Store, c cid.Cid, data []byte) []byte
	// OnMiss, when set, is called before Get reports content as unavailable (lets the simulator charge a network
	// time-out to the calling task: retry loops in the product then turn on the simulated clock instead of spinning).
	OnMiss func()
}

type Store struct {
	ID     int
	Net    *Net
	values map[cid.Cid][]byte
	pinned map[cid.Cid]bool
	// FailAdd makes Add return an error (fault hook).
	FailAdd func() bool
}

func NewNet() *Net { return &Net{} }

func (n *Net) NewStore() *Store {
	s := &Store{ID: len(n.Stores), Net: n, values: map[cid.Cid][]byte{}, pinned: map[cid.Cid]bool{}}
	n.Stores = append(n.Stores, s)
	return s
}

var prefix = cid.Prefix{Codec: cid.Raw, MhLength: -1, MhType: multihash.SHA2_256, Version: 1}

func (s *Store) Cid(data []byte) (cid.Cid, error) { return prefix.Sum(data) }

func (s *Store) Add(data []byte, pin bool) (cid.Cid, error) {
	if s.FailAdd != nil && s.FailAdd() {
		return cid.Cid{}, errors.New("simipfs: injected add failure")
	}
	c, _ := s.Cid(data)
	s.values[c] = append([]byte{}, data...)
	if pin {
		s.pinned[c] = true
	}
	return c, nil
}

func (s *Store) Has(c cid.Cid) bool { _, ok := s.values[c]; return ok }

func (s *Store) Get(key []byte, dataType ipfs.DataType) ([]byte, error) {
	if len(key) == 0 {
		return []byte{}, nil
	}
	c, err := cid.Parse(key)
	if err != nil {
		return nil, err
	}
	if v, ok := s.values[c]; ok {
		return append([]byte{}, v...), nil
	}
	if c == ipfs.EmptyCid {
		return []byte{}, nil
	}
	// simulated fetch from peers
	if s.Net != nil {
		for _, o := range s.Net.Stores {
			if o == s {
				continue
			}
			if v, ok := o.values[c]; ok {
				s.Net.Fetches++
				if s.Net.FetchFail != nil && s.Net.FetchFail(s, c) {
					s.Net.Failed++
					if s.Net.OnMiss != nil {
						s.Net.OnMiss()
					}
					return nil, errors.New("simipfs: injected fetch failure")
				}
				got := append([]byte{}, v...)
				if s.Net.Mutate != nil {
					got = s.Net.Mutate(s, c, got)
					// (content addressing is not re-checked here: kubo would; the property under test is what the
					// importer does with the bytes it is given)
					return got, nil
				}
				s.values[c] = got
				return append([]byte{}, got...), nil
			}
		}
	}
	if s.Net != nil && s.Net.OnMiss != nil {
		s.Net.OnMiss()
	}
	return nil, errors.New("simipfs: not found")
}

func (s *Store) GetWithSizeLimit(key []byte, dataType ipfs.DataType, size int64) ([]byte, error) {
	v, err := s.Get(key, dataType)
	if err != nil {
		return nil, err
	}
	if int64(len(v)) > size {
		return nil, ipfs.TooBigErr
	}
	return v, nil
}

func (s *Store) LoadTo(key []byte, to io.Writer, ctx context.Context, onLoading func(size, loaded int64)) error {
	v, err := s.Get(key, ipfs.Block)
	if err != nil {
		return err
	}
	_, err = to.Write(v)
	return err
}

func (s *Store) AddFile(absPath string, data io.ReadCloser, fi os.FileInfo) (cid.Cid, error) {
	b, err := io.ReadAll(data)
	if err != nil {
		return cid.Cid{}, err
	}
	return s.Add(b, true)
}

func (s *Store) Pin(key []byte) error {
	c, err := cid.Parse(key)
	if err != nil {
		return err
	}
	s.pinned[c] = true
	return nil
}
func (s *Store) Unpin(key []byte) error {
	c, err := cid.Parse(key)
	if err != nil {
		return err
	}
	delete(s.pinned, c)
	return nil
}
func (s *Store) Port() int                             { return 0 }
func (s *Store) PeerId() string                        { return "" }
func (s *Store) Host() core2.Host                      { return nil }
func (s *Store) ShouldPin(dataType ipfs.DataType) bool { return true }
func (s *Store) PubSub() *pubsub.PubSub                { return nil }
func (s *Store) GC() (context.Context, context.CancelFunc) {
	ctx, cancel := context.WithCancel(context.Background())
	cancel()
	return ctx, func() {}
}
