package oracle

import (
	"math"

	mapset "github.com/deckarep/golang-set"
	"github.com/idena-network/idena-go/blockchain/types"
	"github.com/idena-network/idena-go/common"
	"github.com/idena-network/idena-go/crypto"
)

// CertVerdict is the outcome of the reference predicate.
type CertVerdict struct {
	MustAccept bool // a quorum of genuine, distinct, eligible votes over this block/parent/round and nothing else
	MustReject bool // no such quorum
	Distinct   int
	Need       int
	Outsiders  int
	Note       string
}

// RefThreshold is the protocol's vote threshold: the small-network table for up to 8
// validators, otherwise round(committee size * agreement), committee size being
// round(validators * percent) capped at maxCommittee.
func RefThreshold(validators int, final bool, committeePercent, finalPercent, agreement float64, maxCommittee int) int {
	switch {
	case validators <= 1:
		return 1
	case validators <= 3:
		return 2
	case validators <= 5:
		return 3
	case validators <= 7:
		return 4
	case validators == 8:
		return 5
	}
	p := committeePercent
	if final {
		p = finalPercent
	}
	size := int(math.Round(float64(validators) * p))
	if size > maxCommittee {
		size = maxCommittee
	}
	return int(math.Round(float64(size) * agreement))
}

// RefCert decides a certificate from the protocol rule, independently of
// blockchain.ValidateBlockCert: recover the signer of every signature over
// (round, step, parent, voted hash, flags); count DISTINCT signers that are approved
// members of the committee; accept iff the count reaches the threshold reduced by
// round(discriminated members * agreement) and the certificate names this block and round.
// The committee (original draw, approved voters) is an input.
func RefCert(parentHash, blockHash common.Hash, height uint64, cert *types.BlockCert, original, approved mapset.Set, threshold int, agreement float64) CertVerdict {
	v := CertVerdict{}
	if cert == nil || len(cert.Signatures) == 0 {
		v.MustReject = true
		v.Note = "no signatures"
		return v
	}
	distinct := map[common.Address]bool{}
	for _, s := range cert.Signatures {
		vote := &types.Vote{Header: &types.VoteHeader{Round: cert.Round, Step: cert.Step, ParentHash: parentHash, VotedHash: cert.VotedHash, TurnOffline: s.TurnOffline, Upgrade: s.Upgrade}, Signature: s.Signature}
		h := crypto.SignatureHash(vote)
		pub, err := crypto.Ecrecover(h[:], s.Signature)
		if err != nil {
			v.Outsiders++
			continue
		}
		addr, err := crypto.PubKeyBytesToAddress(pub)
		if err != nil || !approved.Contains(addr) {
			v.Outsiders++
			continue
		}
		distinct[addr] = true
	}
	v.Distinct = len(distinct)
	disc := original.Cardinality() - approved.Cardinality()
	v.Need = threshold - int(math.Round(float64(disc)*agreement))
	names := cert.Round == height && cert.VotedHash == blockHash
	quorum := names && v.Distinct >= v.Need
	switch {
	case !quorum:
		v.MustReject = true
		if !names {
			v.Note = "certificate names another round or block"
		}
	case v.Outsiders == 0:
		v.MustAccept = true
	default:
		v.Note = "quorum plus signatures that never count: rejecting the whole certificate is allowed"
	}
	return v
}

// EmptySet returns an empty address set.
func EmptySet() mapset.Set { return mapset.NewSet() }
