package oracle

import (
	"fmt"
	"math/big"
	"sort"
	"strings"

	"github.com/idena-network/idena-go/blockchain/types"
	"github.com/idena-network/idena-go/common"
	"github.com/idena-network/idena-go/stats/collector"
)

// RewardRecorder is a StatsCollector that records the per-reward breakdown the real
// reward code reports while it applies an epoch block: for every reward category the
// amount the code set aside for it (SetTotal...) and the sum it actually paid (Add...).
type RewardRecorder struct {
	collector.StatsCollector
	Total     *big.Int
	Allotted  map[string]*big.Int
	Paid      map[string]*big.Int
	Payments  map[string]int
	Proposer  *big.Int
	Committee *big.Int
}

func NewRewardRecorder() *RewardRecorder {
	return &RewardRecorder{StatsCollector: collector.NewStatsCollector(), Allotted: map[string]*big.Int{}, Paid: map[string]*big.Int{}, Payments: map[string]int{}, Proposer: new(big.Int), Committee: new(big.Int)}
}

func (r *RewardRecorder) allot(cat string, v *big.Int) {
	if v != nil {
		r.Allotted[cat] = new(big.Int).Set(v)
	}
}
func (r *RewardRecorder) pay(cat string, vs ...*big.Int) {
	if r.Paid[cat] == nil {
		r.Paid[cat] = new(big.Int)
	}
	for _, v := range vs {
		if v != nil {
			r.Paid[cat].Add(r.Paid[cat], v)
		}
	}
	r.Payments[cat]++
}

func (r *RewardRecorder) SetTotalReward(a *big.Int)                   { r.Total = new(big.Int).Set(a) }
func (r *RewardRecorder) SetTotalStakingReward(a, share *big.Int)     { r.allot("staking", a) }
func (r *RewardRecorder) SetTotalCandidateReward(a, share *big.Int)   { r.allot("candidate", a) }
func (r *RewardRecorder) SetTotalFlipsBasicReward(a, share *big.Int)  { r.allot("flips_basic", a) }
func (r *RewardRecorder) SetTotalFlipsExtraReward(a, share *big.Int)  { r.allot("flips_extra", a) }
func (r *RewardRecorder) SetTotalReportsReward(a, share *big.Int)     { r.allot("reports", a) }
func (r *RewardRecorder) SetTotalInvitationsReward(a, share *big.Int) { r.allot("invitations", a) }
func (r *RewardRecorder) SetTotalFoundationPayouts(a *big.Int)        { r.allot("foundation", a) }
func (r *RewardRecorder) SetTotalZeroWalletFund(a *big.Int)           { r.allot("zero_wallet", a) }
func (r *RewardRecorder) AddCandidateReward(b, s common.Address, balance, stake *big.Int) {
	r.pay("candidate", balance, stake)
}
func (r *RewardRecorder) AddStakingReward(b, s common.Address, staked *big.Int, balance, stake *big.Int) {
	r.pay("staking", balance, stake)
}
func (r *RewardRecorder) AddFlipsBasicReward(b, s common.Address, balance, stake *big.Int, f []*types.FlipToReward) {
	r.pay("flips_basic", balance, stake)
}
func (r *RewardRecorder) AddFlipsExtraReward(b, s common.Address, balance, stake *big.Int, f []*types.FlipToReward) {
	r.pay("flips_extra", balance, stake)
}
func (r *RewardRecorder) AddReportedFlipsReward(b, s common.Address, shard common.ShardId, idx int, balance, stake *big.Int) {
	r.pay("reports", balance, stake)
}
func (r *RewardRecorder) AddInvitationsReward(b, s common.Address, balance, stake *big.Int, age uint16, tx *common.Hash, eh uint32, w bool) {
	r.pay("invitations", balance, stake)
}
func (r *RewardRecorder) AddInviteeReward(a common.Address, stake *big.Int, age uint16, tx common.Hash, eh uint32) {
	r.pay("invitations", stake)
}
func (r *RewardRecorder) AddFoundationPayout(a common.Address, balance *big.Int) {
	r.pay("foundation", balance)
}
func (r *RewardRecorder) AddZeroWalletFund(a common.Address, balance *big.Int) {
	r.pay("zero_wallet", balance)
}
func (r *RewardRecorder) AddProposerReward(b, s common.Address, balance, stake *big.Int, w *big.Float) {
	r.Proposer.Add(r.Proposer, balance)
	r.Proposer.Add(r.Proposer, stake)
}
func (r *RewardRecorder) AddFinalCommitteeReward(b, s common.Address, balance, stake *big.Int, w *big.Float) {
	r.Committee.Add(r.Committee, balance)
	r.Committee.Add(r.Committee, stake)
}

// Float32WeightCategories are the reward categories whose share is divided by a total
// weight accumulated in float32 (rewards.go: totalStakingWeight, totalBasicWeight,
// totalExtraWeight, totalWeight of invitations).
var Float32WeightCategories = map[string]bool{"staking": true, "flips_basic": true, "flips_extra": true, "invitations": true}

// Excess lists, per category, by how much the paid sum exceeds the allotted amount.
func (r *RewardRecorder) Excess() (byCat map[string]*big.Int, total *big.Int) {
	byCat = map[string]*big.Int{}
	total = new(big.Int)
	for cat, paid := range r.Paid {
		al := r.Allotted[cat]
		if al == nil {
			al = new(big.Int)
		}
		if d := new(big.Int).Sub(paid, al); d.Sign() > 0 {
			byCat[cat] = d
			total.Add(total, d)
		}
	}
	return
}

func (r *RewardRecorder) String() string {
	var cats []string
	for c := range r.Paid {
		cats = append(cats, c)
	}
	for c := range r.Allotted {
		if _, ok := r.Paid[c]; !ok {
			cats = append(cats, c)
		}
	}
	sort.Strings(cats)
	var sb strings.Builder
	fmt.Fprintf(&sb, "epoch pool %v;", r.Total)
	for _, c := range cats {
		fmt.Fprintf(&sb, " %s: allotted %v paid %v in %d payments;", c, r.Allotted[c], r.Paid[c], r.Payments[c])
	}
	fmt.Fprintf(&sb, " proposer %v committee %v", r.Proposer, r.Committee)
	return sb.String()
}
