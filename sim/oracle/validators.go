// Package oracle holds invariants and digests shared by several checks.
package oracle

import (
	"crypto/sha256"
	"encoding/hex"
	"fmt"
	"sort"
	"strings"

	mapset "github.com/deckarep/golang-set"
	"github.com/idena-network/idena-go/blockchain/types"
	"github.com/idena-network/idena-go/common"
	"github.com/idena-network/idena-go/core/validators"
)

func setStr(s mapset.Set) string {
	if s == nil {
		return "nil"
	}
	var xs []string
	for _, x := range s.ToSlice() {
		a := x.(common.Address)
		xs = append(xs, hex.EncodeToString(a[:4]))
	}
	sort.Strings(xs)
	return strings.Join(xs, ",")
}

// ValidatorsText renders every public getter of the validator view for the given
// addresses plus committee draws for fixed (seed, round, step, limit) tuples.
func ValidatorsText(vc *validators.ValidatorsCache, addrs []common.Address) string {
	var sb strings.Builder
	fmt.Fprintf(&sb, "net=%d online=%d validators=%d forkcommittee=%d\n", vc.NetworkSize(), vc.OnlineSize(), vc.ValidatorsSize(), vc.ForkCommitteeSize())
	sorted := append([]common.Address{}, addrs...)
	sort.Slice(sorted, func(i, j int) bool { return string(sorted[i][:]) < string(sorted[j][:]) })
	for _, a := range sorted {
		d := vc.Delegator(a)
		fmt.Fprintf(&sb, "%x val=%v on=%v disc=%v pool=%v psize=%d delegator=%x", a[:4], vc.IsValidated(a), vc.IsOnlineIdentity(a), vc.IsDiscriminated(a), vc.IsPool(a), vc.PoolSize(a), d[:4])
		if vc.IsPool(a) {
			n := vc.PoolSize(a) + 1
			for k := 0; k < n && k < 12; k++ {
				sub, next := vc.FindSubIdentity(a, uint32(k))
				fmt.Fprintf(&sb, " sub[%d]=%x/%d", k, sub[:4], next)
			}
			fmt.Fprintf(&sb, " exc=%d", vc.PoolSizeExceptNodes(a, sorted[:len(sorted)/2]))
		}
		sb.WriteString("\n")
	}
	fmt.Fprintf(&sb, "allonline=%s\n", setStr(vc.GetAllOnlineValidators()))
	vs := vc.ValidatorsSize()
	for i, tup := range [][3]int{{1, 1, vs}, {7, 2, vs}, {7, int(types.Final), (vs + 1) / 2}, {12, 3, vs * 3 / 10}, {99, 1, 1}, {5, int(types.Final), vs * 7 / 10}} {
		var seed types.Seed
		seed[0] = byte(i + 1)
		seed[5] = byte(tup[0])
		sv := vc.GetOnlineValidators(seed, uint64(tup[0]), uint8(tup[1]), tup[2])
		if sv == nil {
			fmt.Fprintf(&sb, "committee[%d]=nil\n", i)
			continue
		}
		fmt.Fprintf(&sb, "committee[%d] orig=%s val=%s appr=%s sub=%d\n", i, setStr(sv.Original), setStr(sv.Validators), setStr(sv.ApprovedValidators), sv.VotesCountSubtrahend(0.65))
	}
	return sb.String()
}

func ValidatorsDigest(vc *validators.ValidatorsCache, addrs []common.Address) string {
	h := sha256.Sum256([]byte(ValidatorsText(vc, addrs)))
	return hex.EncodeToString(h[:8])
}
