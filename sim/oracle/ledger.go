package oracle

import (
	"bytes"
	"fmt"
	"math/big"
	"sort"
	"strings"

	"github.com/idena-network/idena-go/common"
	"github.com/idena-network/idena-go/core/appstate"
	"github.com/idena-network/idena-go/core/state"
)

// Totals is the full scan of a committed ledger.
type Totals struct {
	Balances, Stakes, ContractStakes *big.Int
	Accounts, Identities             int
	Negative                         []string
}

func (t *Totals) Sum() *big.Int {
	s := new(big.Int).Add(t.Balances, t.Stakes)
	return s.Add(s, t.ContractStakes)
}

// ScanRaw walks the committed account and identity entries (decoded from the stored
// bytes) and sums balances, stakes and contract stakes; it lists every negative or
// inconsistent amount.
func ScanRaw(app *appstate.AppState) *Totals {
	t := &Totals{Balances: new(big.Int), Stakes: new(big.Int), ContractStakes: new(big.Int)}
	neg := func(what string, a common.Address, v *big.Int) {
		if v != nil && v.Sign() < 0 {
			t.Negative = append(t.Negative, fmt.Sprintf("%s of %x = %v", what, a[:6], v))
		}
	}
	app.State.IterateAccounts(func(key, value []byte) bool {
		if key == nil {
			return true
		}
		var acc state.Account
		if err := acc.FromBytes(value); err != nil {
			t.Negative = append(t.Negative, fmt.Sprintf("account entry %x does not decode: %v", key, err))
			return false
		}
		a := state.StateDbKeys.AddressKeyToAddress(key)
		t.Accounts++
		if acc.Balance != nil {
			t.Balances.Add(t.Balances, acc.Balance)
			neg("balance", a, acc.Balance)
		}
		if acc.Contract != nil && acc.Contract.Stake != nil {
			t.ContractStakes.Add(t.ContractStakes, acc.Contract.Stake)
			neg("contract stake", a, acc.Contract.Stake)
		}
		return false
	})
	app.State.IterateIdentities(func(key, value []byte) bool {
		if key == nil {
			return true
		}
		var id state.Identity
		if err := id.FromBytes(value); err != nil {
			t.Negative = append(t.Negative, fmt.Sprintf("identity entry %x does not decode: %v", key, err))
			return false
		}
		a := state.StateDbKeys.IdentityKeyToAddress(key)
		t.Identities++
		if id.Stake != nil {
			t.Stakes.Add(t.Stakes, id.Stake)
			neg("stake", a, id.Stake)
		}
		neg("locked stake", a, id.LockedStake())
		neg("replenished stake", a, id.ReplenishedStake())
		neg("penalty", a, id.Penalty)
		stake := id.Stake
		if stake == nil {
			stake = new(big.Int)
		}
		if ls := id.LockedStake(); ls != nil && ls.Cmp(stake) > 0 {
			t.Negative = append(t.Negative, fmt.Sprintf("locked stake of %x = %v exceeds its stake %v (free part negative)", a[:6], ls, stake))
		}
		return false
	})
	return t
}

// GlobalText renders the committed next-block parameters.
func GlobalText(app *appstate.AppState) string {
	st := app.State
	var sb strings.Builder
	fmt.Fprintf(&sb, "epoch=%d nextval=%d period=%d god=%x feepergas=%v vrf=%v epochblock=%d prevepochblocks=%v lastsnap=%d shards=%d godinvites=%d emptybits=%v blockswoceremonial=%d discrthreshold=%v wordsseed=%x",
		st.Epoch(), st.NextValidationTime().Unix(), st.ValidationPeriod(), st.GodAddress().Bytes()[:4], st.FeePerGas(), st.VrfProposerThreshold(), st.EpochBlock(), st.PrevEpochBlocks(),
		st.LastSnapshot(), st.ShardsNum(), st.GodAddressInvites(), st.EmptyBlocksCount(), st.BlocksCntWithoutCeremonialTxs(), st.DiscriminationStakeThreshold(), st.FlipWordsSeed().Bytes()[:4])
	sizes := st.ShardSizes()
	var ks []int
	for k := range sizes {
		ks = append(ks, int(k))
	}
	sort.Ints(ks)
	for _, k := range ks {
		fmt.Fprintf(&sb, " shard%d=%d", k, sizes[common.ShardId(k)])
	}
	return sb.String()
}

// FirstTextDiff returns the first differing line of two multi-line texts.
func FirstTextDiff(a, b string) string {
	la, lb := strings.Split(a, "\n"), strings.Split(b, "\n")
	for i := 0; i < len(la) || i < len(lb); i++ {
		x, y := "", ""
		if i < len(la) {
			x = la[i]
		}
		if i < len(lb) {
			y = lb[i]
		}
		if x != y {
			return fmt.Sprintf("A: %q | B: %q", x, y)
		}
	}
	return ""
}

var _ = bytes.Equal
