package oracle

import (
	"math/big"

	"github.com/idena-network/idena-go/common"
	"github.com/idena-network/idena-go/core/appstate"
	"github.com/idena-network/idena-go/core/state"
)

// Holding is what one address holds: account balance, identity stake + contract stake.
type Holding struct {
	Bal, Stake *big.Int
	Killed     bool
}

// LiveHoldings reads every account and identity of a state INCLUDING its uncommitted changes (the state's own
// IterateOverAccounts/IterateOverIdentities merge the object cache with the tree), as big integers before encoding.
func LiveHoldings(app *appstate.AppState) (map[common.Address]Holding, *big.Int) {
	m := map[common.Address]Holding{}
	total := new(big.Int)
	get := func(a common.Address) Holding {
		h, ok := m[a]
		if !ok {
			h = Holding{new(big.Int), new(big.Int), false}
		}
		return h
	}
	app.State.IterateOverAccounts(func(a common.Address, acc state.Account) {
		h := get(a)
		if acc.Balance != nil {
			h.Bal = new(big.Int).Add(h.Bal, acc.Balance)
			total.Add(total, acc.Balance)
		}
		if acc.Contract != nil && acc.Contract.Stake != nil {
			h.Stake = new(big.Int).Add(h.Stake, acc.Contract.Stake)
			total.Add(total, acc.Contract.Stake)
		}
		m[a] = h
	})
	app.State.IterateOverIdentities(func(a common.Address, id state.Identity) {
		h := get(a)
		if id.Stake != nil {
			h.Stake = new(big.Int).Add(h.Stake, id.Stake)
			total.Add(total, id.Stake)
		}
		h.Killed = id.State == state.Killed
		m[a] = h
	})
	return m, total
}
