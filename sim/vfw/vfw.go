// Package vfw is the check framework: registry, one simulated run, violation
// reporting, tape minimisation, replay files, per-worker result records.
package vfw

import (
	"encoding/json"
	"fmt"
	"os"
	"path/filepath"
	"regexp"
	"runtime/debug"
	"sort"
	"strings"
	"time"

	"verif/sim/seamrt"
)

type Check struct {
	ID          string
	Level       string // exploration | fault_enumeration
	Rule        string // how cases are generated and what makes one non-trivial/distinct
	Real        []string
	Stub        []string
	Assumptions []string
	Run         func(r *Run)
	// budgets (wall clock seconds for the whole batch, all workers in parallel)
	QuickSecs    int
	ThoroughSecs int
	// MaxChoices caps the tape length of one run (step cap).
	MaxChoices int
	// Serial forces one worker (checks that use process-wide real resources).
	Serial bool
	// NoScheduler: the check drives real goroutines itself (C19); no World is created.
	NoScheduler bool
	// DeadlockPred: when set, a dead-lock of the simulated tasks is reported as a violation with this predicate
	// (properties that promise freedom from dead-lock or hangs); otherwise it is harness trouble.
	DeadlockPred string
}

var registry = map[string]*Check{}

func Register(c *Check)    { registry[c.ID] = c }
func Get(id string) *Check { return registry[id] }
func IDs() []string {
	var r []string
	for k := range registry {
		r = append(r, k)
	}
	sort.Strings(r)
	return r
}

type Violation struct {
	Property    string `json:"property"`
	Pred        string `json:"predicate"` // stable signature: which oracle clause, at which site
	Detail      string `json:"detail"`
	Seq         uint64 `json:"event_seq"`
	SimTime     string `json:"sim_time"`
	Fingerprint string `json:"fingerprint"`
}

type violationAbort struct{}

// Run is one simulated execution.
type Run struct {
	Check   *Check
	Tier    string
	Seed    uint64
	Index   int
	Tape    *seamrt.Tape
	W       *seamrt.World
	Viol    *Violation
	Faults  map[string]int
	Probes  map[string]int
	Cases   map[string]bool // key -> nontrivial
	NCases  int
	States  map[string]struct{}
	Sample  interface{}
	Err     string // harness trouble (exit 2 class)
	Replay  bool
	Dir     string // scratch directory of this process (outside /repo)
	Verbose bool
	Notes   []string
}

func (r *Run) Fault(kind string)         { r.Faults[kind]++ }
func (r *Run) FaultN(kind string, n int) { r.Faults[kind] += n }
func (r *Run) Probe(name string)         { r.Probes[name]++ }
func (r *Run) State(key string)          { r.States[key] = struct{}{} }

// Case records one explored case. evaluations counts all calls;
// distinct_nontrivial counts distinct keys recorded with nontrivial=true.
func (r *Run) Case(key string, nontrivial bool) {
	r.NCases++
	if nontrivial {
		r.Cases[key] = true
	} else if _, ok := r.Cases[key]; !ok {
		r.Cases[key] = false
	}
}

func (r *Run) Choose(kind string, n int) int       { return r.Tape.Choose(kind, n) }
func (r *Run) ChooseOpt(kind string, n int) int    { return r.Tape.ChooseOpt(kind, n) }
func (r *Run) Bool(kind string, num, den int) bool { return r.Tape.Bool(kind, num, den) }

func (r *Run) Logf(format string, a ...interface{}) {
	if r.W != nil {
		r.W.Logf(format, a...)
	}
}

func (r *Run) Note(format string, a ...interface{}) {
	if len(r.Notes) < 50 {
		r.Notes = append(r.Notes, fmt.Sprintf(format, a...))
	}
}

// Violate records the violation and aborts the run.
func (r *Run) Violate(pred string, format string, a ...interface{}) {
	if r.Viol == nil {
		v := &Violation{Property: r.Check.ID, Pred: pred, Detail: sanitize(fmt.Sprintf(format, a...))}
		if r.W != nil {
			v.Seq = r.W.Seq
			v.SimTime = r.W.Elapsed().String()
			r.W.Logf("VIOLATION %s: %s", pred, v.Detail)
			v.Fingerprint = r.W.Fingerprint()
		}
		r.Viol = v
	}
	panic(violationAbort{})
}

var reAddr = regexp.MustCompile(`\+?0x[0-9a-fA-F]+\??`)
var reGoroutine = regexp.MustCompile(`goroutine \d+`)

// sanitize removes what differs between two executions of the same history from a violation text (addresses,
// goroutine numbers in stack traces): the text is part of the recorded history.
func sanitize(s string) string {
	return reGoroutine.ReplaceAllString(reAddr.ReplaceAllString(s, "0x?"), "goroutine N")
}

// Trouble reports harness trouble (never a violation) and aborts the run.
func (r *Run) Trouble(format string, a ...interface{}) {
	if r.Err == "" {
		r.Err = fmt.Sprintf(format, a...)
	}
	panic(violationAbort{})
}

// Guard runs f and converts the abort panic into a normal return.
// Returns any other panic value (with stack) to the caller.
func Guard(f func()) (pv interface{}, stack string) {
	defer func() {
		if x := recover(); x != nil {
			if _, ok := x.(violationAbort); ok {
				return
			}
			if seamrt.IsKill(x) {
				return // the scheduler is unwinding this task (dead-lock, end of run)
			}
			pv = x
			stack = string(debug.Stack())
		}
	}()
	f()
	return nil, ""
}

// IsAbort tells whether a recovered panic value is the framework's abort.
func IsAbort(v interface{}) bool { _, ok := v.(violationAbort); return ok }

// BaseTime is outside every consensus-upgrade activation window of config/consensus.go.
var BaseTime = time.Date(2024, 3, 2, 12, 0, 0, 0, time.UTC) // a Saturday

// ReplayMode is set by `vcheck --replay`.
var ReplayMode bool

// Execute performs one run of check c from tape.
func Execute(c *Check, tier string, seed uint64, index int, tape *seamrt.Tape, trace bool, dir string) *Run {
	r := &Run{Check: c, Tier: tier, Seed: seed, Index: index, Tape: tape, Faults: map[string]int{}, Probes: map[string]int{},
		Cases: map[string]bool{}, States: map[string]struct{}{}, Dir: dir, Replay: ReplayMode}
	if c.MaxChoices > 0 {
		tape.Limit = c.MaxChoices
	}
	if c.NoScheduler {
		pv, st := Guard(func() { c.Run(r) })
		if pv != nil && r.Err == "" && r.Viol == nil {
			r.Err = fmt.Sprintf("panic in check driver: %v\n%s", pv, st)
		}
		return r
	}
	w := seamrt.NewWorld(tape, BaseTime)
	w.TraceOn = trace
	w.LockSites(trace)
	r.W = w
	w.Install()
	defer w.Uninstall()
	err := w.Run(nil, func() {
		pv, st := Guard(func() { c.Run(r) })
		if pv != nil && r.Err == "" && r.Viol == nil {
			r.Err = fmt.Sprintf("panic in check driver: %v\n%s", pv, st)
		}
	})
	if de, ok := err.(*seamrt.DeadlockError); ok && c.DeadlockPred != "" && r.Err == "" && r.Viol == nil {
		// for properties that promise freedom from dead-lock / hangs, "every task blocked for ever" is the violation itself
		v := &Violation{Property: c.ID, Pred: c.DeadlockPred, Detail: "every task is blocked and no timer is pending: " + de.Detail, Seq: w.Seq, SimTime: w.Elapsed().String()}
		w.Logf("VIOLATION %s", v.Pred)
		v.Fingerprint = w.Fingerprint()
		r.Viol = v
	}
	if err != nil && r.Err == "" && r.Viol == nil {
		r.Err = err.Error()
	}
	if tape.Mismatch != "" && r.Err == "" {
		r.Err = "tape mismatch (harness nondeterminism): " + tape.Mismatch
	}
	for k, v := range w.Stats {
		r.Probes["seam:"+k] += v
	}
	return r
}

// ---------- replay files ----------

type ReplayFile struct {
	Property     string          `json:"property"`
	Tier         string          `json:"tier"`
	Seed         uint64          `json:"seed"`
	RunIndex     int             `json:"run_index"`
	Violation    *Violation      `json:"violation"`
	Tape         []seamrt.Choice `json:"tape"`
	OriginalLen  int             `json:"original_tape_len"`
	MinimiseRuns int             `json:"minimise_runs"`
	Trace        []string        `json:"trace"`
	Faults       map[string]int  `json:"faults_fired"`
	RepoTree     string          `json:"repo_tree"`
	Known        string          `json:"known_finding,omitempty"`
}

func WriteReplay(path string, rf *ReplayFile) error {
	b, err := json.MarshalIndent(rf, "", " ")
	if err != nil {
		return err
	}
	os.MkdirAll(filepath.Dir(path), 0755)
	return os.WriteFile(path, b, 0644)
}

func ReadReplay(path string) (*ReplayFile, error) {
	b, err := os.ReadFile(path)
	if err != nil {
		return nil, err
	}
	rf := &ReplayFile{}
	return rf, json.Unmarshal(b, rf)
}

// Minimise shrinks the failing tape while the same predicate keeps failing.
func Minimise(c *Check, tier string, seed uint64, index int, vals []int, pred string, budget time.Duration, dir string) (best []int, runs int) {
	deadline := time.Now().Add(budget)
	best = append([]int{}, vals...)
	fails := func(cand []int) bool {
		if time.Now().After(deadline) {
			return false
		}
		runs++
		r := Execute(c, tier, seed, index, seamrt.ReplayTape(cand), false, dir)
		return r.Viol != nil && r.Viol.Pred == pred
	}
	// 1. shortest failing prefix (lenient replay pads with zeros = simplest choices)
	lo, hi := 0, len(best)
	for lo < hi {
		mid := (lo + hi) / 2
		if fails(best[:mid]) {
			hi = mid
		} else {
			lo = mid + 1
		}
	}
	if hi < len(best) && fails(best[:hi]) {
		best = append([]int{}, best[:hi]...)
	}
	// 2. delete chunks, 3. zero chunks
	for pass := 0; pass < 2 && time.Now().Before(deadline); pass++ {
		for size := len(best) / 2; size >= 1; size /= 2 {
			for i := 0; i+size <= len(best) && time.Now().Before(deadline); {
				var cand []int
				if pass == 0 {
					cand = append(append([]int{}, best[:i]...), best[i+size:]...)
				} else {
					allZero := true
					for _, v := range best[i : i+size] {
						if v != 0 {
							allZero = false
						}
					}
					if allZero {
						i += size
						continue
					}
					cand = append([]int{}, best...)
					for j := i; j < i+size; j++ {
						cand[j] = 0
					}
				}
				if fails(cand) {
					best = cand
					if pass == 1 {
						i += size
					}
				} else {
					i += size
				}
			}
		}
	}
	// 4. lower individual values
	for i := 0; i < len(best) && time.Now().Before(deadline); i++ {
		for best[i] > 0 {
			cand := append([]int{}, best...)
			cand[i] = best[i] / 2
			if fails(cand) {
				best = cand
			} else {
				break
			}
		}
	}
	// trailing zeros are implied by lenient replay
	for len(best) > 0 && best[len(best)-1] == 0 {
		best = best[:len(best)-1]
	}
	return best, runs
}

// ---------- known findings ----------

type Finding struct {
	Property  string `json:"property"`
	Status    string `json:"status"`    // "known" (suppresses, prints KNOWN-FINDING) | "fixed" (suppresses nothing)
	Signature string `json:"signature"` // prefix of Violation.Pred
	What      string `json:"what"`
	Commit    string `json:"commit,omitempty"`
}

type FindingsFile struct {
	Findings []Finding `json:"findings"`
	Lines    []string  `json:"lines"`
}

func LoadFindings(path string) *FindingsFile {
	ff := &FindingsFile{}
	b, err := os.ReadFile(path)
	if err != nil {
		return ff
	}
	_ = json.Unmarshal(b, ff)
	return ff
}

func (ff *FindingsFile) Match(v *Violation) *Finding {
	for i := range ff.Findings {
		f := &ff.Findings[i]
		if f.Status == "known" && f.Property == v.Property && strings.HasPrefix(v.Pred, f.Signature) {
			return f
		}
	}
	return nil
}

// ---------- worker results ----------

type WorkerResult struct {
	Worker       int               `json:"worker"`
	Runs         int               `json:"runs"`
	Cases        int               `json:"cases"`
	NonTrivial   []string          `json:"nontrivial_keys"`
	Trivial      int               `json:"trivial"`
	Faults       map[string]int    `json:"faults"`
	Probes       map[string]int    `json:"probes"`
	States       []string          `json:"states"`
	SimSeconds   float64           `json:"sim_seconds"`
	Samples      []interface{}     `json:"samples"`
	Violations   []string          `json:"violations"` // replay paths
	KnownSeen    map[string]int    `json:"known_seen"`
	Errors       []string          `json:"errors"`
	Fingerprints map[string]string `json:"fingerprints"` // run index -> fingerprint (first few, for the determinism cross-check)
	Choices      int               `json:"choices"`
	Switches     uint64            `json:"switches"`
	WallS        float64           `json:"wall_s"`
	Notes        []string          `json:"notes"`
}
