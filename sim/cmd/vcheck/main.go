// vcheck runs one property check: `vcheck <ID> --tier quick|thorough`,
// `vcheck <ID> --replay FILE`. Exit 0 held, 1 violation, 2 harness trouble.
package main

import (
	"encoding/json"
	"flag"
	"fmt"
	"os"
	"os/exec"
	"path/filepath"
	"runtime"
	"sort"
	"strconv"
	"strings"
	"sync"
	"time"

	_ "verif/sim/checks"
	"verif/sim/seamrt"
	"verif/sim/vfw"

	"github.com/idena-network/idena-go/log"
)

func mix(a, b uint64) uint64 {
	z := a*0x9e3779b97f4a7c15 + b + 0x632be59bd9b4e019
	z = (z ^ (z >> 30)) * 0xbf58476d1ce4e5b9
	z = (z ^ (z >> 27)) * 0x94d049bb133111eb
	return z ^ (z >> 31)
}

func fatal2(format string, a ...interface{}) {
	fmt.Fprintf(os.Stderr, "HARNESS-TROUBLE: "+format+"\n", a...)
	os.Exit(2)
}

func main() {
	if len(os.Args) < 2 {
		fatal2("usage: vcheck <ID> [--tier quick|thorough] [--replay FILE]")
	}
	id := os.Args[1]
	fs := flag.NewFlagSet("vcheck", flag.ExitOnError)
	tier := fs.String("tier", "quick", "quick|thorough")
	replay := fs.String("replay", "", "replay file")
	worker := fs.Int("worker", -1, "internal: worker index")
	workers := fs.Int("workers", 0, "number of worker processes")
	secs := fs.Int("secs", 0, "override wall budget (seconds)")
	maxRuns := fs.Int("runs", 0, "stop after this many runs per worker (0 = budget only)")
	seedF := fs.String("seed", "", "seed (default VERIF_SEED or 1)")
	outDir := fs.String("out", "", "internal: worker output dir")
	detN := fs.Int("det", 0, "internal: determinism re-run of the first N runs of worker 0")
	verbose := fs.Bool("v", false, "verbose")
	one := fs.Int("one", -1, "run a single run index in-process and print its trace tail")
	regress := fs.String("regress", "", "replay a frozen regression tape the way every check run does (kind-aware, lenient): exit 1 if it violates")
	fs.Parse(os.Args[2:])
	log.Root().SetHandler(log.DiscardHandler())

	c := vfw.Get(id)
	if c == nil {
		fatal2("unknown check %q (have %v)", id, vfw.IDs())
	}
	if t := os.Getenv("VERIF_TIER"); t != "" && !flagSet(fs, "tier") {
		*tier = t
	}
	seed := uint64(1)
	if s := os.Getenv("VERIF_SEED"); s != "" {
		if v, err := strconv.ParseUint(s, 10, 64); err == nil {
			seed = v
		} else if v, err := strconv.ParseInt(s, 10, 64); err == nil {
			seed = uint64(v)
		}
	}
	if *seedF != "" {
		v, err := strconv.ParseUint(*seedF, 10, 64)
		if err != nil {
			fatal2("bad seed")
		}
		seed = v
	}
	scratch := filepath.Join("/verif/.build/run", fmt.Sprintf("%s-%d", id, os.Getpid()))
	os.MkdirAll(scratch, 0755)
	defer os.RemoveAll(scratch)

	switch {
	case *replay != "":
		os.Exit(doReplay(c, *replay, scratch))
	case *regress != "":
		rf, err := vfw.ReadReplay(*regress)
		if err != nil {
			fatal2("cannot read tape: %v", err)
		}
		rt := *tier
		if rf.Tier != "" {
			rt = rf.Tier
		}
		r := vfw.Execute(c, rt, seed, -1000, seamrt.ReplayTapeKinds(rf.Tape), true, scratch)
		os.RemoveAll(scratch)
		if r.Err != "" {
			fmt.Fprintf(os.Stderr, "HARNESS-TROUBLE: regress: %s\n", r.Err)
			os.Exit(2)
		}
		if r.Viol != nil {
			fmt.Printf("VIOLATION property=%s replay=%s\n  predicate: %s\n  detail: %s\n", c.ID, *regress, r.Viol.Pred, r.Viol.Detail)
			os.Exit(1)
		}
		fmt.Printf("regression tape %s: no violation\n", *regress)
		os.Exit(0)
	case *one >= 0:
		r := vfw.Execute(c, *tier, seed, *one, seamrt.NewTape(mix(seed, uint64(*one))), true, scratch)
		for _, l := range r.W.Trace {
			fmt.Println(l)
		}
		fmt.Printf("run %d: viol=%v err=%q faults=%v probes=%v cases=%d choices=%d switches=%d fp=%s\n", *one, r.Viol, r.Err, r.Faults, r.Probes, r.NCases, len(r.Tape.Rec), r.W.Switches, r.W.Fingerprint())
		os.RemoveAll(scratch)
		if r.Viol != nil {
			os.Exit(1)
		}
		if r.Err != "" {
			os.Exit(2)
		}
		os.Exit(0)
	case *worker >= 0:
		os.Exit(doWorker(c, *tier, seed, *worker, *workers, *secs, *maxRuns, *outDir, *detN, scratch, *verbose))
	default:
		code := doMaster(c, *tier, seed, *workers, *secs, *maxRuns, *verbose)
		os.RemoveAll(scratch)
		os.Exit(code)
	}
}

func flagSet(fs *flag.FlagSet, name string) bool {
	found := false
	fs.Visit(func(f *flag.Flag) {
		if f.Name == name {
			found = true
		}
	})
	return found
}

func budget(c *vfw.Check, tier string, secs int) time.Duration {
	if secs > 0 {
		return time.Duration(secs) * time.Second
	}
	if tier == "thorough" {
		if c.ThoroughSecs > 0 {
			return time.Duration(c.ThoroughSecs) * time.Second
		}
		return 20 * time.Minute
	}
	if c.QuickSecs > 0 {
		return time.Duration(c.QuickSecs) * time.Second
	}
	return 60 * time.Second
}

func repoTree() string {
	out, err := exec.Command("bash", "-c", "cd /repo && (git rev-parse HEAD; git status --porcelain | grep -v 'resources/statedb.tar' | sha256sum | cut -c1-16; git diff | sha256sum | cut -c1-16) | tr '\\n' ' '").Output()
	if err != nil {
		return "unknown"
	}
	return strings.TrimSpace(string(out))
}

func doWorker(c *vfw.Check, tier string, seed uint64, k, n, secs, maxRuns int, outDir string, detN int, scratch string, verbose bool) int {
	start := time.Now()
	deadline := start.Add(budget(c, tier, secs))
	res := &vfw.WorkerResult{Worker: k, Faults: map[string]int{}, Probes: map[string]int{}, KnownSeen: map[string]int{}, Fingerprints: map[string]string{}}
	nontriv := map[string]struct{}{}
	states := map[string]struct{}{}
	findings := vfw.LoadFindings("/verif/known_findings.json")
	code := 0
	if n <= 0 {
		n = 1
	}
	runTier := tier // frozen regression tapes are replayed under the tier they were recorded in
	process := func(tape *seamrt.Tape, idx int, j int) bool {
		traceDir := os.Getenv("VERIF_TRACEDIR") // debugging aid: dump every run's history
		r := vfw.Execute(c, runTier, seed, idx, tape, traceDir != "", scratch)
		if traceDir != "" && r.W != nil {
			os.WriteFile(filepath.Join(traceDir, fmt.Sprintf("trace-%d.txt", idx)), []byte(strings.Join(r.W.Trace, "\n")+"\n"), 0644)
		}
		res.Runs++
		res.Cases += r.NCases
		res.Choices += len(tape.Rec)
		if r.W != nil {
			res.Switches += r.W.Switches
			res.SimSeconds += r.W.Elapsed().Seconds()
			if j < 6 {
				res.Fingerprints[strconv.Itoa(idx)] = r.W.Fingerprint()
			}
		}
		for kk, v := range r.Faults {
			res.Faults[kk] += v
		}
		for kk, v := range r.Probes {
			res.Probes[kk] += v
		}
		for kk := range r.States {
			states[kk] = struct{}{}
		}
		if r.NCases == 0 && r.W != nil {
			// default: one case per run keyed by the history fingerprint
			r.Case(r.W.Fingerprint(), len(r.Faults) > 0)
			res.Cases++
		}
		for kk, nt := range r.Cases {
			if nt {
				nontriv[kk] = struct{}{}
			} else {
				res.Trivial++
			}
		}
		if r.Sample != nil && len(res.Samples) < 2 {
			res.Samples = append(res.Samples, r.Sample)
		}
		for _, nn := range r.Notes {
			if len(res.Notes) < 20 {
				res.Notes = append(res.Notes, nn)
			}
		}
		if r.Err != "" {
			res.Errors = append(res.Errors, fmt.Sprintf("run %d: %s", idx, r.Err))
			fmt.Fprintf(os.Stderr, "HARNESS-TROUBLE property=%s run=%d: %s\n", c.ID, idx, r.Err)
			code = 2
			return false
		}
		if r.Viol != nil && detN == 0 {
			// minimise, write replay, report
			mb := 45 * time.Second
			if tier == "thorough" {
				mb = 4 * time.Minute
			}
			if f := findings.Match(r.Viol); f != nil {
				// listed finding: keep one replay per signature, do not spend the budget on it again
				res.KnownSeen[f.Signature]++
				path := fmt.Sprintf("/verif/replays/known/%s-%s.json", c.ID, sanitize(f.Signature))
				if _, err := os.Stat(path); err == nil {
					return true
				}
				res.KnownSeen[f.Signature]--
				mb = 10 * time.Second
			}
			best, mruns := vfw.Minimise(c, tier, seed, idx, tape.Values(), r.Viol.Pred, mb, scratch)
			fr := vfw.Execute(c, tier, seed, idx, seamrt.ReplayTape(best), true, scratch)
			if fr.Viol == nil || fr.Viol.Pred != r.Viol.Pred {
				// minimised tape does not reproduce: fall back to the original tape
				fr = vfw.Execute(c, tier, seed, idx, seamrt.ReplayTape(tape.Values()), true, scratch)
				if fr.Viol == nil || fr.Viol.Pred != r.Viol.Pred {
					res.Errors = append(res.Errors, fmt.Sprintf("run %d: violation %q did not reproduce from its own tape (harness nondeterminism)", idx, r.Viol.Pred))
					fmt.Fprintf(os.Stderr, "HARNESS-TROUBLE property=%s run=%d: violation %q (%s) did not reproduce from its own tape\n", c.ID, idx, r.Viol.Pred, r.Viol.Detail)
					code = 2
					return false
				}
			}
			var trace []string
			if fr.W != nil {
				trace = fr.W.Trace
			}
			rf := &vfw.ReplayFile{Property: c.ID, Tier: tier, Seed: seed, RunIndex: idx, Violation: fr.Viol, Tape: fr.Tape.Rec,
				OriginalLen: len(tape.Rec), MinimiseRuns: mruns, Trace: trace, Faults: fr.Faults, RepoTree: repoTree()}
			if f := findings.Match(fr.Viol); f != nil {
				rf.Known = f.Signature
				res.KnownSeen[f.Signature]++
				path := fmt.Sprintf("/verif/replays/known/%s-%s.json", c.ID, sanitize(f.Signature))
				vfw.WriteReplay(path, rf)
				return true
			}
			path := fmt.Sprintf("/verif/replays/%s-%d-%d.json", c.ID, seed, idx)
			if err := vfw.WriteReplay(path, rf); err != nil {
				res.Errors = append(res.Errors, err.Error())
			}
			res.Violations = append(res.Violations, path)
			fmt.Printf("VIOLATION property=%s replay=%s\n", c.ID, path)
			fmt.Printf("  predicate: %s\n  detail: %s\n  minimised tape: %d choices (from %d) in %d runs\n", fr.Viol.Pred, fr.Viol.Detail, len(fr.Tape.Rec), len(tape.Rec), mruns)
			code = 1
			return false
		}
		return true
	}
	// frozen regression tapes of earlier violations first (worker 0 only)
	if k == 0 && detN == 0 {
		files, _ := filepath.Glob(fmt.Sprintf("/verif/replays/regress/%s-*.json", c.ID))
		sort.Strings(files)
		for fi, f := range files {
			rf, err := vfw.ReadReplay(f)
			if err != nil {
				continue
			}
			res.Probes["regression_tapes_replayed"]++
			if rf.Tier != "" {
				runTier = rf.Tier
			}
			ok := process(seamrt.ReplayTapeKinds(rf.Tape), -1000-fi, 1000)
			runTier = tier
			if !ok {
				break
			}
		}
	}
	for j := 0; code == 0; j++ {
		if detN > 0 && j >= detN {
			break
		}
		if maxRuns > 0 && j >= maxRuns {
			break
		}
		if j > 0 && time.Now().After(deadline) {
			break
		}
		idx := j*n + k
		if detN > 0 {
			idx = j * n // re-run worker 0's indices
		}
		if !process(seamrt.NewTape(mix(seed, uint64(idx))), idx, j) {
			break
		}
	}
	for kk := range nontriv {
		res.NonTrivial = append(res.NonTrivial, kk)
	}
	for kk := range states {
		res.States = append(res.States, kk)
	}
	res.WallS = time.Since(start).Seconds()
	if outDir != "" {
		b, _ := json.Marshal(res)
		name := fmt.Sprintf("worker-%d.json", k)
		if detN > 0 {
			name = "det.json"
		}
		os.WriteFile(filepath.Join(outDir, name), b, 0644)
	}
	return code
}

func sanitize(s string) string {
	return strings.Map(func(r rune) rune {
		if r >= 'a' && r <= 'z' || r >= 'A' && r <= 'Z' || r >= '0' && r <= '9' || r == '-' || r == '_' {
			return r
		}
		return '_'
	}, s)
}

func doMaster(c *vfw.Check, tier string, seed uint64, workers, secs, maxRuns int, verbose bool) int {
	start := time.Now()
	if workers <= 0 {
		workers = runtime.NumCPU()
		if workers > 16 {
			workers = 16
		}
	}
	if c.Serial {
		workers = 1
	}
	out := filepath.Join("/verif/.build/run", fmt.Sprintf("%s-master-%d", c.ID, os.Getpid()))
	os.MkdirAll(out, 0755)
	defer os.RemoveAll(out)
	self, _ := os.Executable()
	var wg sync.WaitGroup
	codes := make([]int, workers+1)
	var mu sync.Mutex
	launch := func(slot int, args []string, env []string) {
		defer wg.Done()
		cmd := exec.Command(self, args...)
		cmd.Env = append(os.Environ(), env...)
		cmd.Stderr = os.Stderr
		ob, err := cmd.Output()
		mu.Lock()
		os.Stdout.Write(ob)
		mu.Unlock()
		if err != nil {
			if ee, ok := err.(*exec.ExitError); ok {
				codes[slot] = ee.ExitCode()
				if codes[slot] != 1 && codes[slot] != 2 {
					fmt.Fprintf(os.Stderr, "HARNESS-TROUBLE: worker %d died: %v\n", slot, err)
					codes[slot] = 2
				}
			} else {
				codes[slot] = 2
			}
		}
	}
	base := []string{c.ID, "--tier", tier, "--seed", strconv.FormatUint(seed, 10), "--workers", strconv.Itoa(workers), "--out", out}
	if secs > 0 {
		base = append(base, "--secs", strconv.Itoa(secs))
	}
	if maxRuns > 0 {
		base = append(base, "--runs", strconv.Itoa(maxRuns))
	}
	for k := 0; k < workers; k++ {
		wg.Add(1)
		go launch(k, append(append([]string{}, base...), "--worker", strconv.Itoa(k)), nil)
	}
	// determinism cross-check: another process, GOMAXPROCS=1, re-runs worker 0's first runs
	detRuns := 3
	if !c.NoScheduler {
		wg.Add(1)
		go launch(workers, append(append([]string{}, base...), "--worker", "0", "--det", strconv.Itoa(detRuns)), []string{"GOMAXPROCS=1"})
	}
	wg.Wait()

	// aggregate
	agg := &vfw.WorkerResult{Faults: map[string]int{}, Probes: map[string]int{}, KnownSeen: map[string]int{}}
	nontriv := map[string]struct{}{}
	states := map[string]struct{}{}
	var w0, det *vfw.WorkerResult
	missing := 0
	for k := 0; k <= workers; k++ {
		name := fmt.Sprintf("worker-%d.json", k)
		if k == workers {
			if c.NoScheduler {
				continue
			}
			name = "det.json"
		}
		b, err := os.ReadFile(filepath.Join(out, name))
		if err != nil {
			missing++
			continue
		}
		wr := &vfw.WorkerResult{}
		if json.Unmarshal(b, wr) != nil {
			missing++
			continue
		}
		if k == workers {
			det = wr
			continue
		}
		if k == 0 {
			w0 = wr
		}
		agg.Runs += wr.Runs
		agg.Cases += wr.Cases
		agg.Trivial += wr.Trivial
		agg.SimSeconds += wr.SimSeconds
		agg.Choices += wr.Choices
		agg.Switches += wr.Switches
		for kk, v := range wr.Faults {
			agg.Faults[kk] += v
		}
		for kk, v := range wr.Probes {
			agg.Probes[kk] += v
		}
		for kk, v := range wr.KnownSeen {
			agg.KnownSeen[kk] += v
		}
		for _, kk := range wr.NonTrivial {
			nontriv[kk] = struct{}{}
		}
		for _, kk := range wr.States {
			states[kk] = struct{}{}
		}
		if len(agg.Samples) < 3 {
			agg.Samples = append(agg.Samples, wr.Samples...)
		}
		agg.Violations = append(agg.Violations, wr.Violations...)
		agg.Errors = append(agg.Errors, wr.Errors...)
		agg.Notes = append(agg.Notes, wr.Notes...)
	}
	code := 0
	for _, cd := range codes {
		if cd == 2 {
			code = 2
		}
	}
	if code == 0 {
		for _, cd := range codes {
			if cd == 1 {
				code = 1
			}
		}
	}
	if missing > 0 && code == 0 {
		fmt.Fprintf(os.Stderr, "HARNESS-TROUBLE: %d worker result files missing\n", missing)
		code = 2
	}
	detChecked := 0
	if w0 != nil && det != nil {
		for idx, fp := range det.Fingerprints {
			if fp0, ok := w0.Fingerprints[idx]; ok {
				detChecked++
				if fp0 != fp {
					fmt.Fprintf(os.Stderr, "HARNESS-TROUBLE: determinism cross-check failed: run %s fingerprint %s (GOMAXPROCS=default) vs %s (GOMAXPROCS=1)\n", idx, fp0, fp)
					if code == 0 {
						code = 2
					}
				}
			}
		}
	}
	findings := vfw.LoadFindings("/verif/known_findings.json")
	for sig, n := range agg.KnownSeen {
		what := sig
		for _, f := range findings.Findings {
			if f.Signature == sig {
				what = f.Signature + " — " + f.What
			}
		}
		fmt.Printf("KNOWN-FINDING: property=%s %s (seen in %d runs; replay=/verif/replays/known/%s-%s.json)\n", c.ID, what, n, c.ID, sanitize(sig))
	}
	wall := time.Since(start).Seconds()
	writeEvidence(c, tier, seed, agg, len(nontriv), len(states), wall, workers, detChecked, code)
	fmt.Printf("%s %s: runs=%d cases=%d distinct_nontrivial=%d states=%d faults=%v sim_time=%.0fs wall=%.1fs violations=%d exit=%d\n",
		c.ID, tier, agg.Runs, agg.Cases, len(nontriv), len(states), agg.Faults, agg.SimSeconds, wall, len(agg.Violations), code)
	return code
}

func writeEvidence(c *vfw.Check, tier string, seed uint64, agg *vfw.WorkerResult, distinct, states int, wall float64, workers, detChecked, code int) {
	if code == 2 {
		// harness trouble: leave no evidence that could be mistaken for coverage
		os.Remove(fmt.Sprintf("/verif/evidence/%s.json", c.ID))
		return
	}
	samples := agg.Samples
	if len(samples) == 0 {
		samples = []interface{}{"(no sample recorded)"}
	}
	var warn []string
	keys := make([]string, 0, len(agg.Probes))
	for k := range agg.Probes {
		keys = append(keys, k)
	}
	sort.Strings(keys)
	for _, k := range keys {
		if agg.Probes[k] == 0 {
			warn = append(warn, "probe stuck at 0: "+k)
		}
	}
	cov := map[string]interface{}{
		"evaluations":               agg.Cases,
		"distinct_nontrivial":       distinct,
		"rule":                      c.Rule,
		"samples":                   samples,
		"simulated_runs":            agg.Runs,
		"runs_per_hour":             float64(agg.Runs) / wall * 3600,
		"simulated_time_s":          agg.SimSeconds,
		"faults_fired":              agg.Faults,
		"probes":                    agg.Probes,
		"states_reached":            states,
		"states_measure":            "distinct (height, state root, identity root) or check-specific state digests observed across all runs",
		"tape_choices":              agg.Choices,
		"task_switches":             agg.Switches,
		"components_real":           c.Real,
		"components_stubbed":        c.Stub,
		"known_findings_seen":       agg.KnownSeen,
		"worker_processes":          workers,
		"determinism_cross_checked": detChecked,
		"coverage_warnings":         warn,
		"notes":                     agg.Notes,
		"seed_derivation":           "run i uses tape splitmix64(mix(VERIF_SEED, i)); worker k of n takes i = k, k+n, ...",
		"exhaustive":                false,
	}
	ev := map[string]interface{}{
		"property_id": c.ID,
		"tier":        tier,
		"seed":        int64(seed & 0x7fffffffffffffff),
		"level":       c.Level,
		"coverage":    cov,
		"assumptions": c.Assumptions,
		"wall_s":      wall,
		"violations":  len(agg.Violations),
	}
	b, _ := json.MarshalIndent(ev, "", " ")
	os.MkdirAll("/verif/evidence", 0755)
	os.WriteFile(fmt.Sprintf("/verif/evidence/%s.json", c.ID), b, 0644)
}

func doReplay(c *vfw.Check, path string, scratch string) int {
	rf, err := vfw.ReadReplay(path)
	if err != nil {
		fatal2("cannot read replay file: %v", err)
	}
	if rf.Property != c.ID {
		fatal2("replay file is for %s", rf.Property)
	}
	tape := seamrt.StrictTape(rf.Tape)
	vfw.ReplayMode = true
	r := vfw.Execute(c, rf.Tier, rf.Seed, rf.RunIndex, tape, true, scratch)
	if r.W != nil {
		for _, l := range r.W.Trace {
			fmt.Println(l)
		}
	}
	if r.Err != "" && strings.Contains(r.Err, "tape mismatch") && r.Viol == nil && repoTree() != rf.RepoTree {
		fmt.Printf("replay of %s: the run leaves the recorded schedule without violating (%s); /repo differs from the recorded tree %q - the defect is fixed or the code path changed\n", path, r.Err, rf.RepoTree)
		return 0
	}
	if r.Err != "" {
		fmt.Fprintf(os.Stderr, "HARNESS-TROUBLE: replay: %s\n", r.Err)
		return 2
	}
	if r.Viol == nil {
		fmt.Printf("replay of %s: no violation (the tree differs from %q, or the defect is fixed)\n", path, rf.RepoTree)
		return 0
	}
	same := rf.Violation != nil && rf.Violation.Pred == r.Viol.Pred && rf.Violation.Fingerprint == r.Viol.Fingerprint
	fmt.Printf("VIOLATION property=%s replay=%s\n  predicate: %s\n  detail: %s\n  identical_to_recorded=%v (fingerprint %s vs %s)\n", c.ID, path, r.Viol.Pred, r.Viol.Detail, same, r.Viol.Fingerprint, fpOf(rf))
	return 1
}

func fpOf(rf *vfw.ReplayFile) string {
	if rf.Violation == nil {
		return ""
	}
	return rf.Violation.Fingerprint
}
