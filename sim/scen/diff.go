package scen

import (
	"bytes"
	"fmt"
	"sort"

	"github.com/idena-network/idena-go/core/appstate"
)

// DiffStates returns a description of the first differing keys of two (precommitted) states.
func DiffStates(a, b *appstate.AppState) string {
	if a == nil || b == nil {
		return "(state not captured)"
	}
	out := diffDump("state", a.State.VerifDump(), b.State.VerifDump())
	out += diffDump("identity", a.IdentityState.VerifDump(), b.IdentityState.VerifDump())
	if out == "" {
		// same content: look for leaves re-written with an unchanged value (IAVL hashes cover leaf versions)
		va, vb := a.State.VerifDumpVersions(), b.State.VerifDumpVersions()
		var ks []string
		for k, v := range va {
			if vb[k] != v {
				ks = append(ks, fmt.Sprintf(" [state key %x: same value, leaf version A=%d B=%d]", k, v, vb[k]))
			}
		}
		sort.Strings(ks)
		for i, k := range ks {
			if i < 4 {
				out += k
			}
		}
		if out == "" {
			return "(no key or leaf version differs: tree shape only)"
		}
		return "(no key differs)" + out
	}
	return out
}

func diffDump(name string, x, y [][2][]byte) string {
	i, j, n := 0, 0, 0
	out := ""
	add := func(s string) {
		n++
		if n <= 4 {
			out += s
		}
	}
	for i < len(x) || j < len(y) {
		switch {
		case j >= len(y) || i < len(x) && bytes.Compare(x[i][0], y[j][0]) < 0:
			add(fmt.Sprintf(" [%s key %x only in A = %x]", name, x[i][0], x[i][1]))
			i++
		case i >= len(x) || bytes.Compare(x[i][0], y[j][0]) > 0:
			add(fmt.Sprintf(" [%s key %x only in B = %x]", name, y[j][0], y[j][1]))
			j++
		default:
			if !bytes.Equal(x[i][1], y[j][1]) {
				add(fmt.Sprintf(" [%s key %x: A=%x B=%x]", name, x[i][0], x[i][1], y[j][1]))
			}
			i++
			j++
		}
	}
	if n > 4 {
		out += fmt.Sprintf(" (+%d more)", n-4)
	}
	return out
}

// OnlyEmptyIdentityCreated reports whether state A differs from state B exactly by
// empty identity entries (key prefix 0x02, empty value) that A wrote and B did not:
// either new keys, or existing empty entries re-written (same content, newer IAVL
// leaf version). That is the footprint of a creating getter
// (StateDB.GetOrNewIdentityObject) run while validating a transaction that was
// then left out of the block.
func OnlyEmptyIdentityCreated(a, b *appstate.AppState) (bool, int) {
	if a == nil || b == nil {
		return false, 0
	}
	if len(diffDumpKeys(a.IdentityState.VerifDump(), b.IdentityState.VerifDump())) != 0 {
		return false, 0
	}
	ia, ib := a.IdentityState.VerifDumpVersions(), b.IdentityState.VerifDumpVersions()
	for k, v := range ia {
		if ib[k] != v {
			return false, 0
		}
	}
	x, y := a.State.VerifDump(), b.State.VerifDump()
	va, vb := a.State.VerifDumpVersions(), b.State.VerifDumpVersions()
	ym := map[string][]byte{}
	for _, kv := range y {
		ym[string(kv[0])] = kv[1]
	}
	n := 0
	for _, kv := range x {
		k := string(kv[0])
		v, ok := ym[k]
		delete(ym, k)
		if ok && bytes.Equal(v, kv[1]) && va[k] == vb[k] {
			continue
		}
		emptyIdentity := len(kv[0]) == 21 && kv[0][0] == 0x02 && len(kv[1]) == 0
		if emptyIdentity && (!ok || len(v) == 0) {
			n++
			continue
		}
		return false, 0
	}
	return n > 0 && len(ym) == 0, n
}

func diffDumpKeys(x, y [][2][]byte) []string {
	var r []string
	xm := map[string][]byte{}
	for _, kv := range x {
		xm[string(kv[0])] = kv[1]
	}
	for _, kv := range y {
		v, ok := xm[string(kv[0])]
		if !ok || !bytes.Equal(v, kv[1]) {
			r = append(r, string(kv[0]))
		}
		delete(xm, string(kv[0]))
	}
	for k := range xm {
		r = append(r, k)
	}
	return r
}

// SameStates: both trees hold the same keys, values and leaf versions (and so, for equal shapes, the same roots).
func SameStates(a, b *appstate.AppState) bool {
	if a == nil || b == nil {
		return false
	}
	if diffDump("state", a.State.VerifDump(), b.State.VerifDump()) != "" || diffDump("identity", a.IdentityState.VerifDump(), b.IdentityState.VerifDump()) != "" {
		return false
	}
	va, vb := a.State.VerifDumpVersions(), b.State.VerifDumpVersions()
	if len(va) != len(vb) {
		return false
	}
	for k, v := range va {
		if vb[k] != v {
			return false
		}
	}
	return a.State.Root() == b.State.Root() && a.IdentityState.Root() == b.IdentityState.Root()
}
