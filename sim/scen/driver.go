package scen

import (
	"fmt"
	"math/big"
	"sort"
	"time"

	"github.com/idena-network/idena-go/blockchain/attachments"
	"github.com/idena-network/idena-go/blockchain/fee"
	"github.com/idena-network/idena-go/blockchain/types"
	"github.com/idena-network/idena-go/blockchain/validation"
	"github.com/idena-network/idena-go/common"
	"github.com/idena-network/idena-go/core/state"
	"github.com/idena-network/idena-go/crypto"
	"github.com/idena-network/idena-go/crypto/ecies"
	"github.com/idena-network/idena-go/stats/collector"

	"verif/sim/simnode"
)

// ---------- transactions ----------

type TxKind int

// Mix selects which transaction families a client draws from.
type Mix struct {
	Adversarial int // 1-in-N txs are deliberately malformed (0 = never)
	Identity    bool
	Ceremony    bool
	NoGodChange bool // leave ChangeGodAddressTx out of the mix
}

func (s *Scn) stateNonce(n *simnode.Node, a common.Address) (uint32, uint16) {
	ep := n.App.State.Epoch()
	if n.App.State.GetEpoch(a) < ep {
		return 0, ep
	}
	return n.App.State.GetNonce(a), ep
}

// NextNonce returns the harness's idea of the sender's next nonce in the view's epoch.
func (s *Scn) NextNonce(view *simnode.Node, id *Ident) (uint32, uint16) {
	sn, ep := s.stateNonce(view, id.Addr)
	if id.Nonce[ep] < sn {
		id.Nonce[ep] = sn
	}
	return id.Nonce[ep] + 1, ep
}

func (s *Scn) sign(tx *types.Transaction, id *Ident) *types.Transaction {
	st, err := types.SignTx(tx, id.Key)
	if err != nil {
		s.R.Trouble("sign: %v", err)
	}
	return st
}

func someCid(b byte) []byte {
	c, _ := simCid([]byte{b, 1, 2, 3})
	return c
}

// GenTx draws one signed transaction against the state as seen by view.
// Returns nil when the draw yields nothing sensible.
func (s *Scn) GenTx(view *simnode.Node, mix Mix) (*types.Transaction, string) {
	t := s.T
	actors := s.AllActors()
	st := view.App.State
	id := actors[t.Choose("tx.sender", len(actors))]
	for k := 0; k < 3 && st.GetBalance(id.Addr).Sign() == 0; k++ {
		id = actors[t.Choose("tx.sender", len(actors))]
	}
	period := st.ValidationPeriod()
	nonce, epoch := s.NextNonce(view, id)
	bal := st.GetBalance(id.Addr)
	is := st.GetIdentityState(id.Addr)
	tx := &types.Transaction{AccountNonce: nonce, Epoch: epoch}
	other := actors[t.Choose("tx.other", len(actors))]
	what := ""
	kinds := []string{"send", "send", "send", "burn", "profile", "ipfs", "replenish"}
	if mix.Identity && period == state.NonePeriod {
		kinds = append(kinds, "online", "online", "invite", "activate", "kill", "killinvitee", "delegate", "delegate", "undelegate", "killdelegator", "flip", "delflip", "god", "replenish")
	}
	if mix.Ceremony && period != state.NonePeriod {
		kinds = append(kinds, "anshash", "shortans", "longans", "evidence", "anshash", "shortans")
	}
	what = kinds[t.Choose("tx.kind", len(kinds))]
	if what == "god" && mix.NoGodChange {
		what = "send"
	}
	frac := func() *big.Int {
		// a fraction of the balance: 0, tiny, 1/10, 1/2, all
		switch t.Choose("tx.amount", 6) {
		case 0:
			return new(big.Int).Div(bal, big.NewInt(10))
		case 1:
			return big.NewInt(1)
		case 2:
			return new(big.Int).Div(bal, big.NewInt(2))
		case 3:
			return nil
		case 4:
			return new(big.Int).Set(bal)
		default:
			return new(big.Int).Div(bal, big.NewInt(1000))
		}
	}
	switch what {
	case "send":
		tx.Type = types.SendTx
		tx.To = &other.Addr
		tx.Amount = frac()
	case "burn":
		tx.Type = types.BurnTx
		tx.Amount = frac()
		tx.Payload = attachments.CreateBurnAttachment(fmt.Sprintf("k%d", t.Choose("tx.burnkey", 3)))
	case "profile":
		tx.Type = types.ChangeProfileTx
		tx.Payload = attachments.CreateChangeProfileAttachment(someCid(byte(t.Choose("tx.profile", 4))))
	case "ipfs":
		tx.Type = types.StoreToIpfsTx
		tx.Payload = attachments.CreateStoreToIpfsAttachment(someCid(byte(10+t.Choose("tx.ipfs", 4))), uint32(1+t.Choose("tx.ipfssize", 5000)))
	case "replenish":
		tx.Type = types.ReplenishStakeTx
		tx.To = &other.Addr
		if t.Choose("tx.replself", 2) == 0 {
			tx.To = &id.Addr
		}
		tx.Amount = frac()
	case "online":
		tx.Type = types.OnlineStatusTx
		on := !view.App.ValidatorsCache.IsOnlineIdentity(id.Addr)
		if t.Choose("tx.onlineflip", 6) == 0 {
			on = !on
		}
		tx.Payload = attachments.CreateOnlineStatusAttachment(on)
	case "invite":
		tx.Type = types.InviteTx
		// invite a fresh key
		k := t.Choose("tx.invitee", 12)
		inv := s.fresh("invitee", k)
		tx.To = &inv.Addr
		tx.Amount = frac()
	case "activate":
		// sender must hold an invite: pick among fresh invitee keys
		k := t.Choose("tx.invitee", 12)
		inv := s.fresh("invitee", k)
		id = inv
		nonce, epoch = s.NextNonce(view, id)
		tx.AccountNonce, tx.Epoch = nonce, epoch
		dst := s.fresh("activated", k)
		if t.Choose("tx.actself", 2) == 0 {
			dst = inv
		}
		tx.Type = types.ActivationTx
		tx.To = &dst.Addr
		tx.Payload = dst.PubK
	case "kill":
		tx.Type = types.KillTx
	case "killinvitee":
		tx.Type = types.KillInviteeTx
		invs := st.GetInvitees(id.Addr)
		if len(invs) > 0 {
			a := invs[t.Choose("tx.whichinvitee", len(invs))].Address
			tx.To = &a
		} else {
			tx.To = &other.Addr
		}
	case "delegate":
		tx.Type = types.DelegateTx
		tx.To = &other.Addr
	case "undelegate":
		tx.Type = types.UndelegateTx
	case "killdelegator":
		tx.Type = types.KillDelegatorTx
		tx.To = &other.Addr
		// prefer a real delegator of the sender
		var dels []common.Address
		for _, a := range actors {
			if d := st.Delegatee(a.Addr); d != nil && *d == id.Addr {
				dels = append(dels, a.Addr)
			}
		}
		if len(dels) > 0 {
			tx.To = &dels[t.Choose("tx.whichdelegator", len(dels))]
		}
	case "flip":
		tx.Type = types.SubmitFlipTx
		tx.Payload = attachments.CreateFlipSubmitAttachment(someCid(byte(20+t.Choose("tx.flipcid", 6))), uint8(t.Choose("tx.flippair", 4)))
	case "delflip":
		tx.Type = types.DeleteFlipTx
		fl := st.GetIdentity(id.Addr).Flips
		c := someCid(byte(20 + t.Choose("tx.flipcid", 6)))
		if len(fl) > 0 {
			c = fl[t.Choose("tx.whichflip", len(fl))].Cid
		}
		tx.Payload = attachments.CreateDeleteFlipAttachment(c)
	case "god":
		tx.Type = types.ChangeGodAddressTx
		tx.To = &other.Addr
		if t.Choose("tx.godsender", 3) != 0 {
			g := s.byAddr[st.GodAddress()]
			if g != nil {
				id = g
				nonce, epoch = s.NextNonce(view, id)
				tx.AccountNonce, tx.Epoch = nonce, epoch
			}
		}
	case "anshash":
		tx.Type = types.SubmitAnswersHashTx
		h := crypto.Keccak256Hash([]byte{byte(id.Idx)})
		tx.Payload = h[:]
	case "shortans":
		tx.Type = types.SubmitShortAnswersTx
		tx.Payload = attachments.CreateShortAnswerAttachment([]byte{1, 2, 3}, uint64(id.Idx), 0)
	case "longans":
		tx.Type = types.SubmitLongAnswersTx
		tx.Payload = attachments.CreateLongAnswerAttachment([]byte{1, 2}, []byte{1}, []byte{2}, ecies.ImportECDSA(id.Key))
	case "evidence":
		tx.Type = types.EvidenceTx
		tx.Payload = []byte{0xff, 0x0f}
	}
	_ = is
	// fee: usually twice the current fee
	f := fee.CalculateFee(view.App.ValidatorsCache.NetworkSize(), FeeRate(view), tx)
	tx.MaxFee = new(big.Int).Mul(f, big.NewInt(2))
	if t.Choose("tx.tips", 8) == 0 {
		tx.Tips = new(big.Int).Div(f, big.NewInt(3))
	}
	bad := ""
	if mix.Adversarial > 0 && t.Choose("tx.adversarial", mix.Adversarial) == mix.Adversarial-1 {
		switch t.Choose("tx.badkind", 9) {
		case 0:
			if tx.AccountNonce > 1 {
				tx.AccountNonce--
			}
			bad = "stale-nonce"
		case 1:
			tx.AccountNonce += uint32(1 + t.Choose("tx.gap", 3))
			bad = "future-nonce"
		case 2:
			tx.Epoch++
			bad = "future-epoch"
		case 3:
			if tx.Epoch > 0 {
				tx.Epoch--
			}
			bad = "past-epoch"
		case 4:
			tx.MaxFee = new(big.Int).Div(f, big.NewInt(2))
			bad = "low-maxfee"
		case 5:
			tx.Amount = new(big.Int).Add(bal, big.NewInt(1))
			bad = "over-balance"
		case 6:
			tx.Payload = make([]byte, 3*1024+1+t.Choose("tx.paylen", 100))
			bad = "oversized"
		case 7:
			tx.MaxFee = new(big.Int).Lsh(big.NewInt(1), 120)
			bad = "huge-maxfee"
		case 8:
			tx.To = nil
			bad = "nil-to"
		}
	}
	return s.sign(tx, id), what + "/" + bad
}

func (s *Scn) fresh(label string, k int) *Ident {
	key := fmt.Sprintf("%s/%d", label, k)
	for _, e := range s.Extra {
		if e.Init == 255 && e.label == key {
			return e
		}
	}
	id := NewIdent(label, k)
	id.Init = 255
	id.label = key
	s.Extra = append(s.Extra, id)
	s.byAddr[id.Addr] = id
	return id
}

// Submit offers tx to node n's pool through the external (network) path.
func (s *Scn) Submit(n *simnode.Node, tx *types.Transaction) error {
	// cross the node boundary as bytes, like the network does
	b, err := tx.ToBytes()
	if err != nil {
		return err
	}
	var res error
	pv, st := n.Do(func() {
		c := new(types.Transaction)
		if err := c.FromBytes(b); err != nil {
			res = err
			return
		}
		res = n.Pool.AddExternalTxs(validation.InboundTx, c)
	})
	if pv != nil {
		s.R.Trouble("pool add panicked on node %d: %v\n%s", n.ID, pv, st)
	}
	return res
}

// ---------- rounds ----------

// Eligible lists nodes that may propose on their current head.
func (s *Scn) Eligible(nodes []*simnode.Node) []*simnode.Node {
	var r []*simnode.Node
	for _, n := range nodes {
		ok := false
		n.Do(func() {
			ok = n.App.ValidatorsCache.IsOnlineIdentity(n.Addr) || n.App.State.GodAddress() == n.Addr && n.App.ValidatorsCache.OnlineSize() == 0
		})
		if ok {
			r = append(r, n)
		}
	}
	return r
}

// Propose makes node n build a block on its head with the real ProposeBlock.
func (s *Scn) Propose(n *simnode.Node) (*types.BlockProposal, interface{}, string) {
	var p *types.BlockProposal
	pv, st := n.Do(func() {
		ok, proof := n.Chain.GetProposerSortition()
		_ = ok
		p = n.Chain.ProposeBlock(proof)
	})
	return p, pv, st
}

// EmptyBlock makes node n derive the empty block for its head.
func (s *Scn) EmptyBlock(n *simnode.Node) (*types.Block, interface{}, string) {
	var b *types.Block
	pv, st := n.Do(func() { b = n.Chain.GenerateEmptyBlock() })
	return b, pv, st
}

// Insert delivers an encoded block to node n: real decode, real AddBlock.
func (s *Scn) Insert(n *simnode.Node, enc []byte) (err error, pv interface{}, stack string) {
	pv, stack = n.Do(func() {
		b := new(types.Block)
		if e := b.FromBytes(enc); e != nil {
			err = fmt.Errorf("decode: %w", e)
			return
		}
		sc := n.Collector
		if sc == nil {
			sc = collector.NewStatsCollector()
		}
		err = n.Chain.AddBlock(b, nil, sc)
	})
	return
}

// Validate runs full validation of an encoded block on node n without inserting.
func (s *Scn) Validate(n *simnode.Node, enc []byte) (err error, pv interface{}, stack string) {
	pv, stack = n.Do(func() {
		b := new(types.Block)
		if e := b.FromBytes(enc); e != nil {
			err = fmt.Errorf("decode: %w", e)
			return
		}
		_, err = n.Chain.ValidateBlock(b, nil, nil)
	})
	return
}

// MakeCert assembles a certificate for block (on top of n's previous head prev)
// from votes signed by the members of the real committee draw, as many as the
// real threshold asks, and checks it with the real ValidateBlockCert.
// Must be called while n's head is still prev (before insertion) or with the
// validators cache of prev.
func (s *Scn) MakeCert(n *simnode.Node, prev *types.Header, block *types.Header, step uint8) (*types.BlockCert, error) {
	var cert *types.BlockCert
	var rerr error
	pv, st := n.Do(func() {
		vc := n.App.ValidatorsCache
		final := step == types.Final
		size := n.Chain.GetCommitteeSize(vc, final)
		sv := vc.GetOnlineValidators(prev.Seed(), block.Height(), step, size)
		if sv == nil {
			rerr = fmt.Errorf("no committee")
			return
		}
		need := n.Chain.GetCommitteeVotesThreshold(vc, final) - sv.VotesCountSubtrahend(n.Cfg.Consensus.AgreementThreshold)
		var members []common.Address
		for _, x := range sv.Validators.ToSlice() {
			members = append(members, x.(common.Address))
		}
		sort.Slice(members, func(i, j int) bool { return string(members[i][:]) < string(members[j][:]) })
		full := &types.FullBlockCert{}
		for _, m := range members {
			if len(full.Votes) >= need {
				break
			}
			if !sv.Approved(m) {
				continue
			}
			signer := s.signerFor(n, m)
			if signer == nil {
				continue
			}
			v := &types.Vote{Header: &types.VoteHeader{Round: block.Height(), Step: step, ParentHash: prev.Hash(), VotedHash: block.Hash()}}
			h := crypto.SignatureHash(v)
			sig, err := crypto.Sign(h[:], signer.Key)
			if err != nil {
				rerr = err
				return
			}
			v.Signature = sig
			full.Votes = append(full.Votes, v)
		}
		if len(full.Votes) < need {
			rerr = fmt.Errorf("cannot reach quorum: have %d need %d (committee %d)", len(full.Votes), need, len(members))
			return
		}
		cert = full.Compress()
	})
	if pv != nil {
		s.R.Trouble("MakeCert panicked: %v\n%s", pv, st)
	}
	return cert, rerr
}

// signerFor returns the key that votes for committee member m: m itself, or the
// pool's key when m is a pool (pools vote with their own key).
func (s *Scn) signerFor(n *simnode.Node, m common.Address) *Ident { return s.byAddr[m] }

// Step advances simulated time by a drawn block interval.
func (s *Scn) Tick() {
	d := time.Duration(10+s.T.Choose("round.dt", 31)) * time.Second
	if s.T.Choose("round.idle", 8) == 7 {
		d = time.Duration(1+s.T.Choose("round.idlemin", 6)) * time.Minute
	}
	s.W.Advance(d)
}

// NoteAccepted records that a transaction of its sender was accepted by some pool.
func (s *Scn) NoteAccepted(tx *types.Transaction) {
	a, err := types.Sender(tx)
	if err != nil {
		return
	}
	if id := s.byAddr[a]; id != nil && tx.AccountNonce > id.Nonce[tx.Epoch] {
		id.Nonce[tx.Epoch] = tx.AccountNonce
	}
}

// OnlineTx builds a go-online transaction for the node's own identity.
func (s *Scn) OnlineTx(view *simnode.Node, id *Ident) *types.Transaction {
	nonce, epoch := s.NextNonce(view, id)
	tx := &types.Transaction{AccountNonce: nonce, Epoch: epoch, Type: types.OnlineStatusTx, Payload: attachments.CreateOnlineStatusAttachment(true)}
	f := fee.CalculateFee(view.App.ValidatorsCache.NetworkSize(), FeeRate(view), tx)
	tx.MaxFee = new(big.Int).Mul(f, big.NewInt(3))
	return s.sign(tx, id)
}

// FeeRate is the fee per gas a client has to offer: the current rate, at least the network's minimum.
func FeeRate(view *simnode.Node) *big.Int {
	min := fee.GetFeePerGasForNetwork(view.App.ValidatorsCache.NetworkSize())
	cur := view.App.State.FeePerGas()
	if cur == nil || cur.Cmp(min) < 0 {
		return min
	}
	return cur
}
