package scen

import (
	"fmt"
	"math/big"
	"sort"
	"time"

	"github.com/idena-network/idena-go/blockchain/attachments"
	"github.com/idena-network/idena-go/blockchain/fee"
	"github.com/idena-network/idena-go/blockchain/types"
	"github.com/idena-network/idena-go/blockchain/validation"
	"github.com/idena-network/idena-go/common"
	"github.com/idena-network/idena-go/core/state"
	"github.com/idena-network/idena-go/crypto"
	"github.com/idena-network/idena-go/crypto/ecies"
	"github.com/idena-network/idena-go/crypto/vrf/p256"
	"github.com/idena-network/idena-go/stats/collector"

	"verif/sim/simnode"
)

// ---------- transactions ----------

type TxKind int

// Mix selects which transaction families a client draws from.
type Mix struct {
	Adversarial int // 1-in-N txs are deliberately malformed (0 = never)
	Identity    bool
	Ceremony    bool
	NoGodChange bool // leave ChangeGodAddressTx out of the mix
	Contracts   int  // 1-in-N transactions are contract deployments/calls/terminations (0 = none)
	OrphanKills bool // strangers try KillInviteeTx on invitees / candidates without inviter link (C05)
}

func (s *Scn) stateNonce(n *simnode.Node, a common.Address) (uint32, uint16) {
	ep := n.App.State.Epoch()
	if n.App.State.GetEpoch(a) < ep {
		return 0, ep
	}
	return n.App.State.GetNonce(a), ep
}

// NextNonce returns the harness's idea of the sender's next nonce in the view's epoch.
func (s *Scn) NextNonce(view *simnode.Node, id *Ident) (uint32, uint16) {
	sn, ep := s.stateNonce(view, id.Addr)
	if id.Nonce[ep] < sn {
		id.Nonce[ep] = sn
	}
	return id.Nonce[ep] + 1, ep
}

func (s *Scn) sign(tx *types.Transaction, id *Ident) *types.Transaction {
	st, err := types.SignTx(tx, id.Key)
	if err != nil {
		s.R.Trouble("sign: %v", err)
	}
	return st
}

func someCid(b byte) []byte {
	c, _ := simCid([]byte{b, 1, 2, 3})
	return c
}

type cand struct {
	kind   string
	sender *Ident
	to     *common.Address
	aux    int
}

// GenTx draws one signed transaction against the state as seen by view. Generation is state-aware: the
// (kind, sender, target) tuples that the current state makes applicable are collected first (who holds an invitation,
// who has invitees, who delegates to whom, who is a pool, which period it is), one KIND is drawn, then one instance;
// with Mix.Adversarial the transaction is afterwards broken in one drawn way.
func (s *Scn) GenTx(view *simnode.Node, mix Mix) (*types.Transaction, string) {
	t := s.T
	actors := s.AllActors()
	st := view.App.State
	vc := view.App.ValidatorsCache
	period := st.ValidationPeriod()
	epoch := st.Epoch()
	god := st.GodAddress()
	byKind := map[string][]cand{}
	var kinds []string
	add := func(c cand) {
		if _, ok := byKind[c.kind]; !ok {
			kinds = append(kinds, c.kind)
		}
		byKind[c.kind] = append(byKind[c.kind], c)
	}
	minBal := big.NewInt(1e15)
	for _, a := range actors {
		bal := st.GetBalance(a.Addr)
		id := st.GetIdentity(a.Addr)
		rich := bal.Cmp(minBal) > 0
		if !rich && id.State != state.Invite {
			continue
		}
		if rich {
			add(cand{kind: "send", sender: a})
			add(cand{kind: "burn", sender: a})
			add(cand{kind: "replenish", sender: a})
			add(cand{kind: "ipfs", sender: a})
			add(cand{kind: "profile", sender: a})
		}
		if !mix.Identity && !mix.Ceremony {
			continue
		}
		if period == state.NonePeriod && mix.Identity {
			if (vc.IsValidated(a.Addr) || vc.IsPool(a.Addr)) && id.Delegatee() == nil && rich {
				add(cand{kind: "online", sender: a})
			}
			if rich && (a.Addr == god && st.GodAddressInvites() > 0 || st.GetInvites(a.Addr) > 0) {
				add(cand{kind: "invite", sender: a})
			}
			if id.State == state.Invite {
				add(cand{kind: "activate", sender: a})
			}
			if rich && (id.State == state.Verified || id.State == state.Human || id.State == state.Suspended || id.State == state.Zombie || a.Addr == god && id.State != state.Killed && id.State != state.Candidate && id.State != state.Newbie) {
				add(cand{kind: "kill", sender: a})
			}
			if rich {
				for k, inv := range st.GetInvitees(a.Addr) {
					is := st.GetIdentityState(inv.Address)
					if is == state.Invite || is == state.Candidate {
						addr := inv.Address
						add(cand{kind: "killinvitee", sender: a, to: &addr, aux: k})
					}
				}
				if mix.OrphanKills {
					// a stranger's attempt on an invitee or candidate that nobody is linked to as inviter (identities allocated
					// in the genesis block, or whose inviter is gone)
					for _, x := range actors {
						if xs := st.GetIdentityState(x.Addr); x.Addr != a.Addr && (xs == state.Invite || xs == state.Candidate) && st.GetInviter(x.Addr) == nil {
							addr := x.Addr
							add(cand{kind: "killinvitee", sender: a, to: &addr})
							break
						}
					}
				}
				if !vc.IsPool(a.Addr) && id.Delegatee() == nil && st.DelegationSwitch(a.Addr) == nil && id.State != state.Undefined && id.State != state.Killed {
					add(cand{kind: "delegate", sender: a})
				}
				if id.Delegatee() != nil && id.DelegationEpoch != epoch && st.DelegationSwitch(a.Addr) == nil {
					add(cand{kind: "undelegate", sender: a})
				}
				if id.State >= state.Candidate && id.State != state.Killed && int(id.GetMaximumAvailableFlips()) > len(id.Flips) {
					add(cand{kind: "flip", sender: a})
				}
				if len(id.Flips) > 0 {
					add(cand{kind: "delflip", sender: a})
				}
				if a.Addr == god {
					add(cand{kind: "god", sender: a})
				}
			}
		}
		if period != state.NonePeriod && mix.Ceremony && rich && state.IsCeremonyCandidate(id) {
			for _, k := range []struct {
				kind string
				tt   types.TxType
			}{{"anshash", types.SubmitAnswersHashTx}, {"shortans", types.SubmitShortAnswersTx}, {"longans", types.SubmitLongAnswersTx}, {"evidence", types.EvidenceTx}} {
				if !id.HasValidationTx(k.tt) {
					add(cand{kind: k.kind, sender: a})
				}
			}
		}
	}
	// who delegates to whom (kill-delegator candidates)
	if period == state.NonePeriod && mix.Identity {
		for _, d := range actors {
			if del := st.Delegatee(d.Addr); del != nil {
				if p := s.byAddr[*del]; p != nil && st.GetBalance(p.Addr).Cmp(minBal) > 0 {
					addr := d.Addr
					add(cand{kind: "killdelegator", sender: p, to: &addr})
				}
			}
		}
	}
	// ... and who has merely ASKED to delegate to whom (the switch is applied with the next identity-update block): the
	// named pool is not the asker's pool yet - a kill-delegator from it must be refused. Read through a private
	// read-only view: the accessor creates the switch object when it is missing.
	if period == state.NonePeriod && mix.Identity && mix.Adversarial > 0 {
		if ro, err := view.App.Readonly(view.Chain.Head.Height()); err == nil {
			for _, d := range ro.State.Delegations() {
				if p := s.byAddr[d.Delegatee]; p != nil && st.GetBalance(p.Addr).Cmp(minBal) > 0 && st.Delegatee(d.Delegator) == nil {
					addr := d.Delegator
					add(cand{kind: "killdelegator", sender: p, to: &addr})
				}
			}
		}
	}
	if len(kinds) == 0 {
		return nil, ""
	}
	sort.Strings(kinds)
	if mix.NoGodChange {
		var ks []string
		for _, k := range kinds {
			if k != "god" {
				ks = append(ks, k)
			}
		}
		kinds = ks
	}
	// plain payments should not crowd the identity transactions out
	var weighted []string
	for _, k := range kinds {
		w := 2
		switch k {
		case "send":
			w = 3
		case "burn", "ipfs", "profile", "god":
			w = 1
		}
		for i := 0; i < w; i++ {
			weighted = append(weighted, k)
		}
	}
	what := weighted[t.Choose("tx.kind", len(weighted))]
	cs := byKind[what]
	c := cs[t.Choose("tx.instance", len(cs))]
	id := c.sender
	bal := st.GetBalance(id.Addr)
	nonce, ep := s.NextNonce(view, id)
	tx := &types.Transaction{AccountNonce: nonce, Epoch: ep}
	other := actors[t.Choose("tx.other", len(actors))]
	frac := func() *big.Int {
		switch t.Choose("tx.amount", 6) {
		case 0:
			return new(big.Int).Div(bal, big.NewInt(10))
		case 1:
			return big.NewInt(1)
		case 2:
			return new(big.Int).Div(bal, big.NewInt(2))
		case 3:
			return nil
		case 4:
			return new(big.Int).Set(bal)
		default:
			return new(big.Int).Div(bal, big.NewInt(1000))
		}
	}
	switch what {
	case "send":
		tx.Type = types.SendTx
		tx.To = &other.Addr
		tx.Amount = frac()
	case "burn":
		tx.Type = types.BurnTx
		tx.Amount = frac()
		tx.Payload = attachments.CreateBurnAttachment(fmt.Sprintf("k%d", t.Choose("tx.burnkey", 3)))
	case "profile":
		tx.Type = types.ChangeProfileTx
		tx.Payload = attachments.CreateChangeProfileAttachment(someCid(byte(t.Choose("tx.profile", 4))))
	case "ipfs":
		tx.Type = types.StoreToIpfsTx
		tx.Payload = attachments.CreateStoreToIpfsAttachment(someCid(byte(10+t.Choose("tx.ipfs", 4))), uint32(1+t.Choose("tx.ipfssize", 5000)))
	case "replenish":
		tx.Type = types.ReplenishStakeTx
		tx.To = &other.Addr
		var okTo []*Ident
		for _, x := range actors {
			if xs := st.GetIdentityState(x.Addr); xs != state.Undefined && xs != state.Killed {
				okTo = append(okTo, x)
			}
		}
		if len(okTo) > 0 && t.Choose("tx.replvalid", 5) != 0 {
			tx.To = &okTo[t.Choose("tx.replto", len(okTo))].Addr
		}
		tx.Amount = frac()
	case "online":
		tx.Type = types.OnlineStatusTx
		on := !vc.IsOnlineIdentity(id.Addr)
		if st.HasStatusSwitchAddresses(id.Addr) {
			on = !on
		}
		if t.Choose("tx.onlineflip", 8) == 0 {
			on = !on
		}
		tx.Payload = attachments.CreateOnlineStatusAttachment(on)
	case "invite":
		tx.Type = types.InviteTx
		inv := s.fresh("invitee", t.Choose("tx.invitee", 12))
		if t.Choose("tx.inviteknown", 6) == 0 {
			inv = other // an existing address (valid only if it is Undefined)
		}
		tx.To = &inv.Addr
		tx.Amount = frac()
	case "activate":
		dst := id
		if t.Choose("tx.actself", 2) == 1 {
			dst = s.fresh("activated", t.Choose("tx.activated", 12))
		}
		tx.Type = types.ActivationTx
		tx.To = &dst.Addr
		tx.Payload = dst.PubK
	case "kill":
		tx.Type = types.KillTx
	case "killinvitee":
		tx.Type = types.KillInviteeTx
		tx.To = c.to
	case "delegate":
		tx.Type = types.DelegateTx
		// targets: addresses without delegatee themselves; invitees, candidates and existing pools preferred
		var pref, any []*Ident
		for _, x := range actors {
			if x.Addr == id.Addr || st.Delegatee(x.Addr) != nil {
				continue
			}
			any = append(any, x)
			xs := st.GetIdentityState(x.Addr)
			if vc.IsPool(x.Addr) || xs == state.Invite || xs == state.Candidate {
				pref = append(pref, x)
			}
		}
		switch {
		case len(pref) > 0 && t.Choose("tx.delegpref", 2) == 0:
			tx.To = &pref[t.Choose("tx.delegto", len(pref))].Addr
		case len(any) > 0:
			tx.To = &any[t.Choose("tx.delegto", len(any))].Addr
		default:
			tx.To = &other.Addr
		}
	case "undelegate":
		tx.Type = types.UndelegateTx
	case "killdelegator":
		tx.Type = types.KillDelegatorTx
		tx.To = c.to
	case "flip":
		tx.Type = types.SubmitFlipTx
		tx.Payload = attachments.CreateFlipSubmitAttachment(someCid(byte(20+t.Choose("tx.flipcid", 6))), uint8(t.Choose("tx.flippair", 4)))
	case "delflip":
		tx.Type = types.DeleteFlipTx
		fl := st.GetIdentity(id.Addr).Flips
		tx.Payload = attachments.CreateDeleteFlipAttachment(fl[t.Choose("tx.whichflip", len(fl))].Cid)
	case "god":
		tx.Type = types.ChangeGodAddressTx
		tx.To = &other.Addr
	case "anshash":
		tx.Type = types.SubmitAnswersHashTx
		h := crypto.Keccak256Hash([]byte{byte(id.Idx)})
		tx.Payload = h[:]
	case "shortans":
		tx.Type = types.SubmitShortAnswersTx
		tx.Payload = attachments.CreateShortAnswerAttachment([]byte{1, 2, 3}, uint64(id.Idx), 0)
	case "longans":
		tx.Type = types.SubmitLongAnswersTx
		// a genuine VRF proof over the epoch's words seed (required from the second epoch on)
		seed := st.FlipWordsSeed()
		proof := []byte{1}
		if signer, err := p256.NewVRFSigner(id.Key); err == nil {
			_, proof = signer.Evaluate(seed[:])
		}
		tx.Payload = attachments.CreateLongAnswerAttachment([]byte{1, 2}, proof, []byte{2}, ecies.ImportECDSA(id.Key))
	case "evidence":
		tx.Type = types.EvidenceTx
		tx.Payload = []byte{0xff, 0x0f}
	}
	f := fee.CalculateFee(vc.NetworkSize(), FeeRate(view), tx)
	tx.MaxFee = new(big.Int).Mul(f, big.NewInt(2))
	if t.Choose("tx.tips", 6) == 0 {
		tx.Tips = new(big.Int).Div(f, big.NewInt(3))
		if tx.Tips.Sign() == 0 {
			tx.Tips = big.NewInt(int64(1e12) * int64(1+t.Choose("tx.tipsamount", 1000))) // fee-free transaction types may carry tips as well
		}
	}
	bad := ""
	if mix.Adversarial > 0 && t.Choose("tx.adversarial", mix.Adversarial) == mix.Adversarial-1 {
		switch t.Choose("tx.badkind", 12) {
		case 0:
			if tx.AccountNonce > 1 {
				tx.AccountNonce--
			}
			bad = "stale-nonce"
		case 1:
			tx.AccountNonce += uint32(1 + t.Choose("tx.gap", 3))
			bad = "future-nonce"
		case 2:
			tx.Epoch++
			bad = "future-epoch"
		case 3:
			if tx.Epoch > 0 {
				tx.Epoch--
			}
			bad = "past-epoch"
		case 4:
			tx.MaxFee = new(big.Int).Div(f, big.NewInt(2))
			bad = "low-maxfee"
		case 5:
			tx.Amount = new(big.Int).Add(bal, big.NewInt(1))
			bad = "over-balance"
		case 6:
			tx.Payload = make([]byte, 3*1024+1+t.Choose("tx.paylen", 100))
			bad = "oversized"
		case 7:
			tx.MaxFee = new(big.Int).Lsh(big.NewInt(1), 120)
			bad = "huge-maxfee"
		case 8:
			tx.To = nil
			bad = "nil-to"
		case 9:
			// a target the relationship checks have to refuse: somebody else's invitee / delegator / a stranger
			tx.To = &other.Addr
			bad = "foreign-target"
		case 10:
			// signed by somebody who has no right to it
			id = other
			n2, e2 := s.NextNonce(view, id)
			tx.AccountNonce, tx.Epoch = n2, e2
			bad = "foreign-signer"
		case 11:
			tx.To = &god
			bad = "god-target"
		}
	}
	return s.sign(tx, id), what + "/" + bad
}

func (s *Scn) fresh(label string, k int) *Ident {
	key := fmt.Sprintf("%s/%d", label, k)
	for _, e := range s.Extra {
		if e.Init == 255 && e.label == key {
			return e
		}
	}
	id := NewIdent(label, k)
	id.Init = 255
	id.label = key
	s.Extra = append(s.Extra, id)
	s.byAddr[id.Addr] = id
	return id
}

// Submit offers tx to node n's pool through the external (network) path.
func (s *Scn) Submit(n *simnode.Node, tx *types.Transaction) error {
	// cross the node boundary as bytes, like the network does
	b, err := tx.ToBytes()
	if err != nil {
		return err
	}
	var res error
	pv, st := n.Do(func() {
		c := new(types.Transaction)
		if err := c.FromBytes(b); err != nil {
			res = err
			return
		}
		res = n.Pool.AddExternalTxs(validation.InboundTx, c)
	})
	if pv != nil {
		s.R.Trouble("pool add panicked on node %d: %v\n%s", n.ID, pv, st)
	}
	return res
}

// ---------- rounds ----------

// Eligible lists nodes that may propose on their current head.
func (s *Scn) Eligible(nodes []*simnode.Node) []*simnode.Node {
	var r []*simnode.Node
	for _, n := range nodes {
		ok := false
		n.Do(func() {
			ok = n.App.ValidatorsCache.IsOnlineIdentity(n.Addr) || n.App.State.GodAddress() == n.Addr && n.App.ValidatorsCache.OnlineSize() == 0
		})
		if ok {
			r = append(r, n)
		}
	}
	return r
}

// Propose makes node n build a block on its head with the real ProposeBlock.
func (s *Scn) Propose(n *simnode.Node) (*types.BlockProposal, interface{}, string) {
	var p *types.BlockProposal
	pv, st := n.Do(func() {
		ok, proof := n.Chain.GetProposerSortition()
		_ = ok
		p = n.Chain.ProposeBlock(proof)
	})
	return p, pv, st
}

// EmptyBlock makes node n derive the empty block for its head.
func (s *Scn) EmptyBlock(n *simnode.Node) (*types.Block, interface{}, string) {
	var b *types.Block
	pv, st := n.Do(func() { b = n.Chain.GenerateEmptyBlock() })
	return b, pv, st
}

// Insert delivers an encoded block to node n: real decode, real AddBlock.
func (s *Scn) Insert(n *simnode.Node, enc []byte) (err error, pv interface{}, stack string) {
	pv, stack = n.Do(func() {
		b := new(types.Block)
		if e := b.FromBytes(enc); e != nil {
			err = fmt.Errorf("decode: %w", e)
			return
		}
		sc := n.Collector
		if sc == nil {
			sc = collector.NewStatsCollector()
		}
		err = n.Chain.AddBlock(b, nil, sc)
	})
	return
}

// Validate runs full validation of an encoded block on node n without inserting.
func (s *Scn) Validate(n *simnode.Node, enc []byte) (err error, pv interface{}, stack string) {
	pv, stack = n.Do(func() {
		b := new(types.Block)
		if e := b.FromBytes(enc); e != nil {
			err = fmt.Errorf("decode: %w", e)
			return
		}
		_, err = n.Chain.ValidateBlock(b, nil, nil)
	})
	return
}

// MakeCert assembles a certificate for block (on top of n's previous head prev)
// from votes signed by the members of the real committee draw, as many as the
// real threshold asks, and checks it with the real ValidateBlockCert.
// Must be called while n's head is still prev (before insertion) or with the
// validators cache of prev.
func (s *Scn) MakeCert(n *simnode.Node, prev *types.Header, block *types.Header, step uint8) (*types.BlockCert, error) {
	var cert *types.BlockCert
	var rerr error
	pv, st := n.Do(func() {
		vc := n.App.ValidatorsCache
		final := step == types.Final
		size := n.Chain.GetCommitteeSize(vc, final)
		sv := vc.GetOnlineValidators(prev.Seed(), block.Height(), step, size)
		if sv == nil {
			rerr = fmt.Errorf("no committee")
			return
		}
		need := n.Chain.GetCommitteeVotesThreshold(vc, final) - sv.VotesCountSubtrahend(n.Cfg.Consensus.AgreementThreshold)
		var members []common.Address
		for _, x := range sv.Validators.ToSlice() {
			members = append(members, x.(common.Address))
		}
		sort.Slice(members, func(i, j int) bool { return string(members[i][:]) < string(members[j][:]) })
		full := &types.FullBlockCert{}
		for _, m := range members {
			if len(full.Votes) >= need {
				break
			}
			if !sv.Approved(m) {
				continue
			}
			signer := s.signerFor(n, m)
			if signer == nil {
				continue
			}
			v := &types.Vote{Header: &types.VoteHeader{Round: block.Height(), Step: step, ParentHash: prev.Hash(), VotedHash: block.Hash()}}
			h := crypto.SignatureHash(v)
			sig, err := crypto.Sign(h[:], signer.Key)
			if err != nil {
				rerr = err
				return
			}
			v.Signature = sig
			full.Votes = append(full.Votes, v)
		}
		if len(full.Votes) < need {
			rerr = fmt.Errorf("cannot reach quorum: have %d need %d (committee %d)", len(full.Votes), need, len(members))
			return
		}
		cert = full.Compress()
	})
	if pv != nil {
		s.R.Trouble("MakeCert panicked: %v\n%s", pv, st)
	}
	return cert, rerr
}

// signerFor returns the key that votes for committee member m: m itself, or the
// pool's key when m is a pool (pools vote with their own key).
func (s *Scn) signerFor(n *simnode.Node, m common.Address) *Ident { return s.byAddr[m] }

// Step advances simulated time by a drawn block interval.
func (s *Scn) Tick() {
	d := time.Duration(10+s.T.Choose("round.dt", 31)) * time.Second
	if s.T.Choose("round.idle", 8) == 7 {
		d = time.Duration(1+s.T.Choose("round.idlemin", 6)) * time.Minute
	}
	s.W.Advance(d)
}

// NoteAccepted records that a transaction of its sender was accepted by some pool.
func (s *Scn) NoteAccepted(tx *types.Transaction) {
	a, err := types.Sender(tx)
	if err != nil {
		return
	}
	if id := s.byAddr[a]; id != nil && tx.AccountNonce > id.Nonce[tx.Epoch] {
		id.Nonce[tx.Epoch] = tx.AccountNonce
	}
}

// OnlineTx builds a go-online transaction for the node's own identity.
func (s *Scn) OnlineTx(view *simnode.Node, id *Ident) *types.Transaction {
	nonce, epoch := s.NextNonce(view, id)
	tx := &types.Transaction{AccountNonce: nonce, Epoch: epoch, Type: types.OnlineStatusTx, Payload: attachments.CreateOnlineStatusAttachment(true)}
	f := fee.CalculateFee(view.App.ValidatorsCache.NetworkSize(), FeeRate(view), tx)
	tx.MaxFee = new(big.Int).Mul(f, big.NewInt(3))
	return s.sign(tx, id)
}

// FeeRate is the fee per gas a client has to offer: the current rate, at least the network's minimum.
func FeeRate(view *simnode.Node) *big.Int {
	min := fee.GetFeePerGasForNetwork(view.App.ValidatorsCache.NetworkSize())
	cur := view.App.State.FeePerGas()
	if cur == nil || cur.Cmp(min) < 0 {
		return min
	}
	return cur
}

// FlipTx builds a SubmitFlipTx of id on view's state, or nil when the identity may not submit one now.
func (s *Scn) FlipTx(view *simnode.Node, id *Ident, k int) *types.Transaction {
	var tx *types.Transaction
	view.Do(func() {
		st := view.App.State
		ident := st.GetIdentity(id.Addr)
		if st.ValidationPeriod() != 0 || int(ident.GetMaximumAvailableFlips()) <= len(ident.Flips) {
			return
		}
		nonce, ep := s.NextNonce(view, id)
		t := &types.Transaction{AccountNonce: nonce, Epoch: ep, Type: types.SubmitFlipTx,
			Payload: attachments.CreateFlipSubmitAttachment(someCid(byte(40+(id.Idx*7+k)%200)), uint8(k%4))}
		t.MaxFee = new(big.Int).Mul(fee.CalculateFee(view.App.ValidatorsCache.NetworkSize(), FeeRate(view), t), big.NewInt(3))
		tx = s.sign(t, id)
	})
	return tx
}
