package scen

import (
	"bytes"
	"crypto/sha256"
	"fmt"
	"math/big"
	"strings"
	"time"

	"github.com/RoaringBitmap/roaring"
	"github.com/idena-network/idena-go/blockchain/attachments"
	"github.com/idena-network/idena-go/blockchain/fee"
	"github.com/idena-network/idena-go/blockchain/types"
	"github.com/idena-network/idena-go/blockchain/validation"
	"github.com/idena-network/idena-go/common"
	"github.com/idena-network/idena-go/common/eventbus"
	"github.com/idena-network/idena-go/core/state"
	"github.com/idena-network/idena-go/crypto/ecies"
	"github.com/idena-network/idena-go/crypto/vrf/p256"
	"github.com/idena-network/idena-go/events"

	"verif/sim/seamrt"
	"verif/sim/simnode"
)

// ---------- gossip between replicas that run the real ceremony ----------

type cerMsg struct {
	from, to int
	kind     string
	data     []byte
	due      int
}

// CerNet carries what the nodes themselves broadcast (own transactions, flips, public flip keys, key packages) to the
// other replicas as bytes, with loss, delay and duplication drawn from the tape, plus peer re-synchronisation.
type CerNet struct {
	S        *Scn
	Nodes    []*simnode.Node
	Drop1in  int          // 1-in-N deliveries are lost (0: never)
	MaxDelay int          // in pump ticks
	Down     map[int]bool // replicas that currently receive nothing
	q        []cerMsg
	tick     int
	attached map[eventbus.Bus]bool
}

func NewCerNet(s *Scn, nodes []*simnode.Node) *CerNet {
	c := &CerNet{S: s, Nodes: nodes, Drop1in: 8, MaxDelay: 2, Down: map[int]bool{}, attached: map[eventbus.Bus]bool{}}
	for _, n := range nodes {
		c.Attach(n)
	}
	return c
}

func (c *CerNet) index(n *simnode.Node) int {
	for i, x := range c.Nodes {
		if x == n {
			return i
		}
	}
	return -1
}

// Attach subscribes to the node's bus (call again after every restart: start-up creates a new bus).
func (c *CerNet) Attach(n *simnode.Node) {
	if n.Bus == nil || c.attached[n.Bus] {
		return
	}
	c.attached[n.Bus] = true
	idx := c.index(n)
	n.Bus.Subscribe(events.NewTxEventID, func(e eventbus.Event) {
		ev := e.(*events.NewTxEvent)
		if !ev.Own || ev.Deferred {
			return
		}
		if b, err := ev.Tx.ToBytes(); err == nil {
			c.broadcast(idx, "tx", b)
		}
	})
	n.Bus.Subscribe(events.NewFlipKeyID, func(e eventbus.Event) {
		ev := e.(*events.NewFlipKeyEvent)
		if !ev.Own {
			return
		}
		if b, err := ev.Key.ToBytes(); err == nil {
			c.broadcast(idx, "flipkey", b)
		}
	})
	n.Bus.Subscribe(events.NewFlipKeysPackageID, func(e eventbus.Event) {
		ev := e.(*events.NewFlipKeysPackageEvent)
		if !ev.Own {
			return
		}
		if b, err := ev.Key.ToBytes(); err == nil {
			c.broadcast(idx, "keypkg", b)
		}
	})
	n.Bus.Subscribe(events.NewFlipEventID, func(e eventbus.Event) {
		ev := e.(*events.NewFlipEvent)
		if ev.Flip == nil || ev.Flip.Tx == nil {
			return
		}
		if snd, _ := types.Sender(ev.Flip.Tx); snd != n.Addr {
			return
		}
		if b, err := ev.Flip.ToBytes(); err == nil {
			c.broadcast(idx, "flip", b)
		}
	})
}

func (c *CerNet) broadcast(from int, kind string, data []byte) {
	t := c.S.T
	for to := range c.Nodes {
		if to == from {
			continue
		}
		if c.Drop1in > 0 && t.Choose("cernet.drop", c.Drop1in) == c.Drop1in-1 {
			c.S.R.Fault("gossip_" + kind + "_dropped")
			continue
		}
		d := 0
		if c.MaxDelay > 0 {
			d = t.Choose("cernet.delay", c.MaxDelay+1)
		}
		if d > 0 {
			c.S.R.Fault("gossip_" + kind + "_delayed")
		}
		c.q = append(c.q, cerMsg{from, to, kind, data, c.tick + d})
		if t.Choose("cernet.dup", 12) == 0 {
			c.q = append(c.q, cerMsg{from, to, kind, data, c.tick + d + 1})
			c.S.R.Fault("gossip_" + kind + "_duplicated")
		}
	}
}

func (c *CerNet) deliver(m cerMsg) {
	if c.Down[m.to] {
		c.S.R.Fault("gossip_to_down_replica_lost")
		return
	}
	to := c.Nodes[m.to]
	pv, st := to.Do(func() {
		switch m.kind {
		case "tx":
			tx := new(types.Transaction)
			if tx.FromBytes(m.data) == nil {
				to.Pool.AddExternalTxs(validation.InboundTx, tx)
			}
		case "flipkey":
			k := new(types.PublicFlipKey)
			if k.FromBytes(m.data) == nil {
				to.Keys.AddPublicFlipKey(k, false)
			}
		case "keypkg":
			k := new(types.PrivateFlipKeysPackage)
			if k.FromBytes(m.data) == nil {
				to.Keys.AddPrivateKeysPackage(k, false)
			}
		case "flip":
			f := new(types.Flip)
			if f.FromBytes(m.data) == nil && f.IsValid() {
				to.Flipper.AddNewFlip(f, false)
				to.Flipper.VerifDrain()
			}
		}
	})
	if pv != nil {
		c.S.R.Violate("C12:panic-while-receiving-ceremony-gossip", "node %d receiving %s: %v\n%s", to.ID, m.kind, pv, st)
	}
}

// Pump delivers what is due.
func (c *CerNet) Pump() {
	c.tick++
	var keep []cerMsg
	for _, m := range c.q {
		if m.due > c.tick {
			keep = append(keep, m)
			continue
		}
		c.deliver(m)
	}
	c.q = keep
}

// Sync: a peer hands everything it holds to another (pending transactions, public flip keys, key packages) -
// what re-connecting peers do; heals earlier losses.
func (c *CerNet) Sync(from, to int) {
	if c.Down[from] || c.Down[to] || from == to {
		return
	}
	a := c.Nodes[from]
	var msgs []cerMsg
	a.Do(func() {
		for _, tx := range a.Pool.GetPendingTransaction(true, true, common.MultiShard, false) {
			if b, err := tx.ToBytes(); err == nil {
				msgs = append(msgs, cerMsg{from, to, "tx", b, 0})
			}
		}
		// (a node offers its own keys and packages through the "priority" lists and everybody else's through the others)
		for _, k := range append(a.Keys.GetPriorityFlipKeysForSync(), a.Keys.GetFlipKeysForSync(common.MultiShard, true)...) {
			if b, err := k.ToBytes(); err == nil {
				msgs = append(msgs, cerMsg{from, to, "flipkey", b, 0})
			}
		}
		for _, h := range append(a.Keys.GetPriorityFlipPackagesHashesForSync(), a.Keys.GetFlipPackagesHashesForSync(common.MultiShard, true)...) {
			if e, _, _, ok := a.Keys.Get(h); ok {
				if p, isP := e.(*types.PrivateFlipKeysPackage); isP {
					if b, err := p.ToBytes(); err == nil {
						msgs = append(msgs, cerMsg{from, to, "keypkg", b, 0})
					}
				}
			}
		}
	})
	for _, m := range msgs {
		c.deliver(m)
	}
	c.S.R.Probe("peer_resync")
}

func (c *CerNet) SyncAll() {
	for i := range c.Nodes {
		for j := range c.Nodes {
			c.Sync(i, j)
		}
	}
}

// ---------- users ----------

// CerUser is the person in front of one replica.
type CerUser struct {
	Node *simnode.Node
	Id   *Ident
	// drawn behaviour
	Present   bool // takes part in the validation at all
	Accuracy  int  // per cent of answers that agree with the flip's hidden truth
	SkipLong  bool
	LateLong  int // rounds to wait into the long session
	Reports   bool
	WantFlips int
	MadeFlips int
	ShortDone bool
	LongDone  bool
	shortHash common.Hash
}

// Truth is the hidden right answer of a flip (a function of its content identifier).
func Truth(cid []byte) types.Answer {
	h := sha256.Sum256(cid)
	if h[0]&1 == 0 {
		return types.Left
	}
	return types.Right
}

// Cer drives one or more validation ceremonies over replicas that run the real ValidationCeremony.
type Cer struct {
	S              *Scn
	L              *Ledger
	Nodes          []*simnode.Node
	Net            *CerNet
	Users          []*CerUser
	longStartRound int
	round          int
	Log            []string
}

// CerGoPolicy: which of the product's background goroutines run as simulator tasks.
func CerGoPolicy(site string) seamrt.GoPolicy {
	if !strings.HasPrefix(site, "core/ceremony/ceremony.go") {
		return seamrt.GoNever // push trackers, flipper write loop, key-pool loaders: not needed, or run synchronously by Settle
	}
	switch {
	case strings.HasSuffix(site, "/vc.newTxLoop"), strings.Contains(site, ":startValidationShortSessionTimer/"), strings.HasSuffix(site, "/vc.loadAllFlips"):
		return seamrt.GoNever // block on real channels / tickers: their bodies are run by Settle (VerifDrainNewTx, VerifTimerTick)
	}
	return seamrt.GoTask // lottery calculation, delayed key broadcasts, answer broadcast loop, flip loading, clean-up
}

func NewCer(s *Scn, l *Ledger, nodes []*simnode.Node) *Cer {
	c := &Cer{S: s, L: l, Nodes: nodes}
	c.Net = NewCerNet(s, nodes)
	t := s.T
	s.Net.OnMiss = func() {
		if s.W.Cur() != nil {
			s.W.Sleep(2 * time.Second)
		}
	}
	for _, n := range nodes {
		u := &CerUser{Node: n, Id: s.IdentOf(n.Addr)}
		u.Present = t.Choose("user.present", 6) != 0
		u.Accuracy = []int{100, 100, 95, 90, 80, 70, 55, 30}[t.Choose("user.accuracy", 8)]
		u.SkipLong = t.Choose("user.skiplong", 10) == 0
		u.LateLong = t.Choose("user.latelong", 3)
		u.Reports = t.Choose("user.reports", 4) == 0
		u.WantFlips = t.Choose("user.wantflips", 4)
		if u.Id == s.Ids[0] {
			u.WantFlips += 2 // the god identity may author flips without limit: most flips of a first epoch are its
		}
		c.Users = append(c.Users, u)
	}
	return c
}

func (c *Cer) logf(format string, a ...interface{}) {
	c.S.R.Logf("cer: "+format, a...)
}

// Settle lets the product's background tasks that are due run, and performs one turn of the loops the simulator
// does not run as goroutines (new-tx queue, short-session timer, flip queue).
func (c *Cer) Settle() {
	c.S.W.Sleep(time.Millisecond)
	for _, n := range c.Nodes {
		if n.VC == nil {
			continue
		}
		pv, st := n.Do(func() {
			n.VC.VerifDrainNewTx()
			n.VC.VerifTimerTick()
			n.Flipper.VerifDrain()
		})
		if pv != nil {
			c.S.R.Violate("C17:ceremony-background-work-panicked", "node %d: %v\n%s", n.ID, pv, st)
		}
	}
	c.S.W.Sleep(time.Millisecond)
}

func (c *Cer) period() state.ValidationPeriod { return c.Nodes[0].App.State.ValidationPeriod() }

// SubmitFlip lets the user author one flip (content is arbitrary bytes; it is encrypted and published by the real Flipper).
func (c *Cer) SubmitFlip(u *CerUser) bool {
	n := u.Node
	ok := false
	pv, st := n.Do(func() {
		st := n.App.State
		ident := st.GetIdentity(u.Id.Addr)
		god := st.GodAddress() == u.Id.Addr
		if st.ValidationPeriod() != state.NonePeriod || ident.State < state.Candidate {
			return
		}
		if !god && (int(ident.GetMaximumAvailableFlips()) <= len(ident.Flips) || ident.GetTotalWordPairsCount() <= len(ident.Flips)) {
			return
		}
		pub := []byte(fmt.Sprintf("flip-public-%x-%d", u.Id.Addr[:3], u.MadeFlips))
		priv := []byte(fmt.Sprintf("flip-private-%x-%d", u.Id.Addr[:3], u.MadeFlips))
		cid, encPub, encPriv, err := n.Flipper.PrepareFlip(pub, priv)
		if err != nil {
			return
		}
		used := map[uint8]bool{}
		for _, f := range ident.Flips {
			used[f.Pair] = true
		}
		pair := uint8(0)
		for used[pair] {
			pair++
		}
		nonce, ep := c.S.NextNonce(n, u.Id)
		// the node's own pending transactions count too
		if pn := n.App.NonceCache.GetNonce(u.Id.Addr, ep); pn+1 > nonce {
			nonce = pn + 1
		}
		tx := &types.Transaction{AccountNonce: nonce, Epoch: ep, Type: types.SubmitFlipTx, Payload: attachments.CreateFlipSubmitAttachment(cid.Bytes(), pair)}
		tx.MaxFee = new(big.Int).Mul(fee.CalculateFee(n.App.ValidatorsCache.NetworkSize(), FeeRate(n), tx), big.NewInt(3))
		signed, err := types.SignTx(tx, u.Id.Key)
		if err != nil {
			return
		}
		if err := n.Flipper.AddNewFlip(&types.Flip{Tx: signed, PublicPart: encPub, PrivatePart: encPriv}, true); err == nil {
			ok = true
			u.Id.Nonce[ep] = nonce
			c.S.NoteAccepted(signed)
		} else {
			c.logf("flip of node %d refused: %v", n.ID, err)
		}
	})
	if pv != nil {
		c.S.R.Violate("C16:flip-submission-panicked", "node %d: %v\n%s", n.ID, pv, st)
	}
	if ok {
		u.MadeFlips++
		c.S.R.Probe("flip_authored")
	}
	return ok
}

func (c *Cer) shardOf(n *simnode.Node, a common.Address) common.ShardId {
	id := n.App.State.GetIdentity(a)
	return id.ShiftedShardId()
}

func (c *Cer) answersFor(u *CerUser, flips [][]byte, long bool) *types.Answers {
	t := c.S.T
	ans := types.NewAnswers(uint(len(flips)))
	for i, f := range flips {
		if t.Choose("user.skipflip", 25) == 0 {
			continue // left unanswered
		}
		right := Truth(f)
		if t.Choose("user.roll", 100) >= u.Accuracy {
			if right == types.Left {
				right = types.Right
			} else {
				right = types.Left
			}
		}
		if right == types.Left {
			ans.Left(uint(i))
		} else {
			ans.Right(uint(i))
		}
		if long {
			g := []types.Grade{types.GradeD, types.GradeC, types.GradeB, types.GradeA, types.GradeD, types.GradeNone}[t.Choose("user.grade", 6)]
			if u.Reports && t.Choose("user.report", 3) == 0 {
				g = types.GradeReported
			}
			if g != types.GradeNone {
				ans.Grade(uint(i), g)
			}
		}
	}
	return ans
}

// UsersAct lets every user do what a person would do in the current period.
func (c *Cer) UsersAct() {
	c.round++
	per := c.period()
	if per != state.LongSessionPeriod && per != state.AfterLongSessionPeriod {
		c.longStartRound = 0
	} else if c.longStartRound == 0 {
		c.longStartRound = c.round
	}
	for i, u := range c.Users {
		n := u.Node
		if n.VC == nil || c.Net.Down[i] {
			continue
		}
		switch per {
		case state.NonePeriod:
			u.ShortDone, u.LongDone = false, false
			next := n.App.State.NextValidationTime()
			if gap := next.Sub(c.S.W.TrueNow()); gap < 40*time.Minute && u.MadeFlips < u.WantFlips && c.S.T.Choose("user.flipnow", 2) == 0 {
				c.SubmitFlip(u)
			}
		case state.ShortSessionPeriod:
			if !u.Present || u.ShortDone {
				continue
			}
			pv, st := n.Do(func() {
				flips := n.VC.GetShortFlipsToSolve(u.Id.Addr, c.shardOf(n, u.Id.Addr))
				if !n.VC.IsValidationReady() {
					return
				}
				ans := c.answersFor(u, flips, false)
				if h, err := n.VC.SubmitShortAnswers(ans); err == nil {
					u.ShortDone = true
					u.shortHash = h
					c.S.R.Probe("user_submitted_short_answers")
				} else {
					c.logf("node %d short answers refused: %v", n.ID, err)
				}
			})
			if pv != nil {
				c.S.R.Violate("C17:short-answer-submission-panicked", "node %d: %v\n%s", n.ID, pv, st)
			}
		case state.LongSessionPeriod:
			if !u.Present || u.LongDone || u.SkipLong || c.round-c.longStartRound < u.LateLong {
				continue
			}
			pv, st := n.Do(func() {
				flips := n.VC.GetLongFlipsToSolve(u.Id.Addr, c.shardOf(n, u.Id.Addr))
				ans := c.answersFor(u, flips, true)
				if _, err := n.VC.SubmitLongAnswers(ans); err == nil {
					u.LongDone = true
					c.S.R.Probe("user_submitted_long_answers")
				} else {
					c.logf("node %d long answers refused: %v", n.ID, err)
				}
			})
			if pv != nil {
				c.S.R.Violate("C17:long-answer-submission-panicked", "node %d: %v\n%s", n.ID, pv, st)
			}
		}
	}
}

// RestartNode restarts a replica (durable state only) and re-attaches it to the gossip.
func (c *Cer) RestartNode(n *simnode.Node) bool {
	err, pv, _ := c.S.Restart(n)
	if err != nil || pv != nil {
		return false
	}
	c.Net.Attach(n)
	return true
}

// LotteryTextAll is LotteryText over every shard the node's state knows.
func LotteryTextAll(n *simnode.Node) string {
	nsh := 1
	n.Do(func() { nsh = int(n.App.State.ShardsNum()) })
	var sb strings.Builder
	for sh := 1; sh <= nsh; sh++ {
		fmt.Fprintf(&sb, "shard %d: %s", sh, LotteryText(n, common.ShardId(sh)))
	}
	return sb.String()
}

// LotteryText renders a node's lottery view canonically (for cross-replica comparison).
func LotteryText(n *simnode.Node, shard common.ShardId) string {
	var sb strings.Builder
	n.Do(func() {
		v := n.VC.VerifLottery(shard)
		fmt.Fprintf(&sb, "finished=%v candidates=%d flips=%d noncandidates=%d\n", v.Finished, len(v.Candidates), len(v.Flips), len(v.NonCandidates))
		for i, a := range v.Candidates {
			var sh, lg []int
			if i < len(v.Short) {
				sh = v.Short[i]
			}
			if i < len(v.Long) {
				lg = v.Long[i]
			}
			fmt.Fprintf(&sb, "%x author=%v short=%v long=%v authors=%v recipients=%v\n", a[:4], v.IsAuthor[i], sh, lg, v.AuthorsPerCandidate[i], v.CandidatesPerAuthor[i])
		}
		for i, f := range v.Flips {
			au := v.FlipAuthor[string(f)]
			fmt.Fprintf(&sb, "flip %d %x by %x\n", i, f[len(f)-4:], au[:4])
		}
	})
	return sb.String()
}

// Invite: the god identity invites a fresh key (funded), whose owner then activates the invitation with its own
// public key - the way identities normally come into being (genesis identities have no public key in the state,
// so nobody can encrypt flip keys for them).
func (c *Cer) Invite(fresh *Ident, view *simnode.Node) bool {
	s := c.S
	god := s.Ids[0]
	var tx *types.Transaction
	view.Do(func() {
		st := view.App.State
		if st.GodAddress() != god.Addr || st.GodAddressInvites() == 0 || st.ValidationPeriod() != state.NonePeriod || st.GetIdentityState(fresh.Addr) != state.Undefined {
			return
		}
		nonce, ep := s.NextNonce(view, god)
		if pn := view.App.NonceCache.GetNonce(god.Addr, ep); pn+1 > nonce {
			nonce = pn + 1
		}
		t := &types.Transaction{AccountNonce: nonce, Epoch: ep, Type: types.InviteTx, To: &fresh.Addr, Amount: new(big.Int).Mul(common.DnaBase, big.NewInt(50))}
		t.MaxFee = new(big.Int).Mul(fee.CalculateFee(view.App.ValidatorsCache.NetworkSize(), FeeRate(view), t), big.NewInt(3))
		tx = s.sign(t, god)
	})
	if tx == nil {
		return false
	}
	any := false
	for _, n := range c.Nodes {
		if s.Submit(n, tx) == nil {
			any = true
		}
	}
	if any {
		s.NoteAccepted(tx)
	}
	return any
}

// Activate: the invited key activates its invitation (recipient = itself, payload = its public key).
func (c *Cer) Activate(fresh *Ident, view *simnode.Node) bool {
	s := c.S
	var tx *types.Transaction
	view.Do(func() {
		st := view.App.State
		if st.GetIdentityState(fresh.Addr) != state.Invite || st.ValidationPeriod() != state.NonePeriod {
			return
		}
		nonce, ep := s.NextNonce(view, fresh)
		t := &types.Transaction{AccountNonce: nonce, Epoch: ep, Type: types.ActivationTx, To: &fresh.Addr, Payload: fresh.PubK}
		t.MaxFee = new(big.Int).Mul(fee.CalculateFee(view.App.ValidatorsCache.NetworkSize(), FeeRate(view), t), big.NewInt(3))
		tx = s.sign(t, fresh)
	})
	if tx == nil {
		return false
	}
	any := false
	for _, n := range c.Nodes {
		if s.Submit(n, tx) == nil {
			any = true
		}
	}
	if any {
		s.NoteAccepted(tx)
	}
	return any
}

// LongAnswersTx builds a SubmitLongAnswersTx of id (junk answers, genuine VRF proof) valid on view's state, or nil.
func (s *Scn) LongAnswersTx(view *simnode.Node, id *Ident) *types.Transaction {
	var tx *types.Transaction
	view.Do(func() {
		st := view.App.State
		ident := st.GetIdentity(id.Addr)
		if !state.IsCeremonyCandidate(ident) || ident.HasValidationTx(types.SubmitLongAnswersTx) || st.ValidationPeriod() < state.LongSessionPeriod {
			return
		}
		seed := st.FlipWordsSeed()
		proof := []byte{1}
		if signer, err := p256.NewVRFSigner(id.Key); err == nil {
			_, proof = signer.Evaluate(seed[:])
		}
		nonce, ep := s.NextNonce(view, id)
		answers, salt := []byte{1, 2}, []byte{2}
		// a participant that does not run the reference client: the attachment's parts are whatever it likes (before the
		// first validation the payload is not examined at all)
		kind := s.T.ChooseOpt("longans.crafted", 8)
		switch kind {
		case 1:
			answers = nil
		case 2:
			answers = bytes.Repeat([]byte{0xff}, 2000)
		case 3:
			answers = bytes.Repeat([]byte{0xff}, 1+s.T.Choose("longans.len", 40))
		case 4:
			proof = proof[:len(proof)/2]
		case 5:
			salt = nil
		}
		t := &types.Transaction{AccountNonce: nonce, Epoch: ep, Type: types.SubmitLongAnswersTx,
			Payload: attachments.CreateLongAnswerAttachment(answers, proof, salt, ecies.ImportECDSA(id.Key))}
		switch kind {
		case 6:
			t.Payload = []byte{0x0a} // a field header without its length
		case 7:
			t.Payload = make([]byte, 1+s.T.Choose("longans.len", 60))
			for i := range t.Payload {
				t.Payload[i] = byte(s.T.Choose("longans.byte", 256))
			}
		}
		if kind != 0 {
			s.R.Probe(fmt.Sprintf("crafted_long_answers_%d", kind))
		}
		t.MaxFee = new(big.Int).Mul(fee.CalculateFee(view.App.ValidatorsCache.NetworkSize(), FeeRate(view), t), big.NewInt(2))
		tx = s.sign(t, id)
	})
	return tx
}

// EvidenceTxOf builds an EvidenceTx of id with the given payload (whatever its sender likes: the validator does not
// look at it), valid on view's state, or nil.
func (s *Scn) EvidenceTxOf(view *simnode.Node, id *Ident, payload []byte) *types.Transaction {
	var tx *types.Transaction
	view.Do(func() {
		st := view.App.State
		ident := st.GetIdentity(id.Addr)
		if !state.IsCeremonyCandidate(ident) || ident.HasValidationTx(types.EvidenceTx) || st.ValidationPeriod() < state.LongSessionPeriod {
			return
		}
		nonce, ep := s.NextNonce(view, id)
		t := &types.Transaction{AccountNonce: nonce, Epoch: ep, Type: types.EvidenceTx, Payload: payload}
		t.MaxFee = new(big.Int).Mul(fee.CalculateFee(view.App.ValidatorsCache.NetworkSize(), FeeRate(view), t), big.NewInt(2))
		tx = s.sign(t, id)
	})
	return tx
}

// HostileEvidencePayload draws an evidence bitmap as a participant who does not run the reference client may send it.
func (s *Scn) HostileEvidencePayload() ([]byte, string) {
	t := s.R.Tape
	le := func(v uint32) []byte { return []byte{byte(v), byte(v >> 8), byte(v >> 16), byte(v >> 24)} }
	switch t.Choose("evidence.payload", 13) {
	case 12:
		// a well-formed bitmap of a few kilobytes that names 2^26 "candidates" (run-length containers)
		rb := roaring.New()
		rb.AddRange(0, 1<<26)
		rb.RunOptimize()
		buf := bytes.NewBuffer([]byte{1})
		rb.WriteTo(buf)
		return buf.Bytes(), "roaring-runs-naming-2^26-candidates"
	case 0:
		return []byte{}, "empty"
	case 1:
		return []byte{1}, "roaring-format-without-body"
	case 2:
		return []byte{2}, "bigint-format-without-body"
	case 3:
		return []byte{0}, "unknown-format-byte"
	case 4:
		// roaring cookie without run containers (12346), container count 2^16
		return append(append([]byte{1}, le(12346)...), le(1<<16)...), "roaring-header-claims-65536-containers"
	case 5:
		return append(append([]byte{1}, le(12346)...), le(0xffffffff)...), "roaring-header-claims-2^32-containers"
	case 6:
		// cookie with run containers (12347), size in the upper half
		return append([]byte{1}, le(12347|0xffff<<16)...), "roaring-run-header-claims-65536-containers"
	case 7:
		// one array container of key 0 with cardinality 4 but no data
		b := append([]byte{1}, le(12346)...)
		b = append(b, le(1)...)
		b = append(b, 0, 0, 3, 0)
		b = append(b, le(16)...)
		return b, "roaring-container-without-data"
	case 8:
		// well-formed roaring bitmap naming candidates far outside the list
		b := append([]byte{1}, le(12346)...)
		b = append(b, le(1)...)
		b = append(b, 0xff, 0xff, 1, 0)
		b = append(b, le(16)...)
		b = append(b, 0xfe, 0xff, 0xff, 0xff)
		return b, "roaring-names-candidates-outside-the-list"
	case 9:
		b := make([]byte, 1+t.Choose("evidence.len", 48))
		for i := range b {
			b[i] = byte(t.Choose("evidence.byte", 256))
		}
		b[0] = 1
		return b, "roaring-format-random-body"
	case 10:
		b := make([]byte, 1+t.Choose("evidence.len", 48))
		for i := range b {
			b[i] = byte(t.Choose("evidence.byte", 256))
		}
		return b, "random-bytes"
	default:
		return []byte{2, 0xff, 0xff, 0xff, 0xff, 0xff, 0xff, 0xff, 0xff, 0xff}, "bigint-format-all-ones"
	}
}
