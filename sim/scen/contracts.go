package scen

import (
	"fmt"
	"math/big"

	"github.com/idena-network/idena-go/blockchain/attachments"
	"github.com/idena-network/idena-go/blockchain/fee"
	"github.com/idena-network/idena-go/blockchain/types"
	"github.com/idena-network/idena-go/common"
	"github.com/idena-network/idena-go/vm/embedded"
	"github.com/idena-network/idena-go/vm/wasm/testdata"

	"verif/sim/simnode"
)

// Contract is a deployed contract the client knows about.
type Contract struct {
	Addr  common.Address
	Kind  string
	Owner *Ident
}

func u64(x uint64) []byte { return common.ToBytes(x) }

var wasmCodes = map[string]func() ([]byte, error){
	"wasm:erc20": testdata.Erc20, "wasm:inc": testdata.IncFunc, "wasm:sum": testdata.SumFunc, "wasm:testcases": testdata.TestCases, "wasm:sharedtoken": testdata.SharedFungibleToken,
}

var contractMethods = map[string][]string{
	"timelock":         {"transfer"},
	"multisig":         {"add", "send", "push"},
	"oraclelock":       {"push", "checkOracleVoting"},
	"refundablelock":   {"deposit", "push", "refund"},
	"oraclevoting":     {"startVoting", "sendVoteProof", "sendVote", "finishVoting", "prolongVoting", "addStake"},
	"wasm:erc20":       {"transfer", "balanceOf", "approve", "transferFrom"},
	"wasm:inc":         {"inc", "invoke"},
	"wasm:sum":         {"invoke", "sum"},
	"wasm:testcases":   {"test"},
	"wasm:sharedtoken": {"transferTo", "transfer"},
}

// NoteContracts records successful deployments of block from the receipts stored by node n.
func (s *Scn) NoteContracts(n *simnode.Node, block *types.Block) {
	for _, tx := range block.Body.Transactions {
		if tx.Type != types.DeployContractTx {
			continue
		}
		var rc *types.TxReceipt
		n.Do(func() { rc = n.Chain.GetReceipt(tx.Hash()) })
		if rc == nil || !rc.Success {
			continue
		}
		kind := s.pendingDeploys[tx.Hash()]
		snd, _ := types.Sender(tx)
		s.Contracts = append(s.Contracts, &Contract{Addr: rc.ContractAddress, Kind: kind, Owner: s.byAddr[snd]})
	}
}

// GenContractTx draws a deploy / call / terminate transaction with plausible or arbitrary arguments.
func (s *Scn) GenContractTx(view *simnode.Node) (*types.Transaction, string) {
	t := s.T
	st := view.App.State
	actors := s.AllActors()
	var rich []*Ident
	for _, a := range actors {
		if st.GetBalance(a.Addr).Cmp(big.NewInt(2e18)) > 0 {
			rich = append(rich, a)
		}
	}
	if len(rich) == 0 {
		return nil, ""
	}
	id := rich[t.Choose("ctx.sender", len(rich))]
	other := actors[t.Choose("ctx.other", len(actors))]
	nonce, ep := s.NextNonce(view, id)
	tx := &types.Transaction{AccountNonce: nonce, Epoch: ep}
	feeRate := FeeRate(view)
	minStake := new(big.Int).Mul(feeRate, big.NewInt(3000000))
	now := uint64(s.W.TrueNow().Unix())
	randArgs := func() [][]byte {
		n := t.Choose("ctx.nargs", 5)
		var args [][]byte
		for i := 0; i < n; i++ {
			switch t.Choose("ctx.argkind", 7) {
			case 0:
				args = append(args, other.Addr.Bytes())
			case 1:
				args = append(args, u64(uint64(t.Choose("ctx.argu64", 1000))))
			case 2:
				args = append(args, []byte{byte(t.Choose("ctx.argbyte", 256))})
			case 3:
				args = append(args, nil)
			case 4:
				args = append(args, new(big.Int).Lsh(big.NewInt(1), uint(t.Choose("ctx.argbig", 100))).Bytes())
			case 5:
				args = append(args, make([]byte, t.Choose("ctx.arglen", 70)))
			default:
				args = append(args, id.Addr.Bytes())
			}
		}
		return args
	}
	what := ""
	kindSel := t.Choose("ctx.kind", 10)
	if len(s.Contracts) == 0 && kindSel >= 4 {
		kindSel = t.Choose("ctx.kind0", 4)
	}
	var someContract *Contract
	if len(s.Contracts) > 0 {
		someContract = s.Contracts[t.Choose("ctx.contract", len(s.Contracts))]
	}
	ovAddr := common.Address{0x7}
	for _, c := range s.Contracts {
		if c.Kind == "oraclevoting" {
			ovAddr = c.Addr
		}
	}
	switch {
	case kindSel <= 2: // deploy embedded
		kinds := []string{"timelock", "multisig", "oraclevoting", "oraclelock", "refundablelock"}
		k := kinds[t.Choose("ctx.embedded", len(kinds))]
		var codeHash embedded.EmbeddedContractType
		var args [][]byte
		switch k {
		case "timelock":
			codeHash = embedded.TimeLockContract
			args = [][]byte{u64(now + uint64(t.Choose("ctx.lock", 600)) - 200)}
		case "multisig":
			codeHash = embedded.MultisigContract
			args = [][]byte{{byte(1 + t.Choose("ctx.maxvotes", 4))}, {byte(1 + t.Choose("ctx.minvotes", 4))}}
		case "oraclevoting":
			codeHash = embedded.OracleVotingContract
			args = [][]byte{[]byte("fact"), u64(now + uint64(t.Choose("ctx.ovstart", 300)))}
			if t.Choose("ctx.ovmore", 2) == 0 {
				args = append(args, u64(uint64(1+t.Choose("ctx.ovdur", 20))), u64(uint64(1+t.Choose("ctx.ovpub", 20))), []byte{byte(51 + t.Choose("ctx.ovwin", 49))}, []byte{byte(1 + t.Choose("ctx.ovquorum", 99))}, u64(uint64(1+t.Choose("ctx.ovcommittee", 10))))
			}
		case "oraclelock":
			codeHash = embedded.OracleLockContract
			args = [][]byte{ovAddr.Bytes(), {byte(t.Choose("ctx.olvalue", 3))}, id.Addr.Bytes(), other.Addr.Bytes()}
		case "refundablelock":
			codeHash = embedded.RefundableOracleLockContract
			args = [][]byte{ovAddr.Bytes(), {byte(t.Choose("ctx.rlvalue", 3))}, id.Addr.Bytes(), other.Addr.Bytes(), u64(uint64(t.Choose("ctx.rldelay", 10))), u64(now + uint64(t.Choose("ctx.rldeadline", 600))), u64(uint64(t.Choose("ctx.rlfee", 50)))}
		}
		if t.Choose("ctx.randdeployargs", 5) == 0 {
			args = randArgs()
		}
		tx.Type = types.DeployContractTx
		att := attachments.CreateDeployContractAttachment(codeHash, nil, nil, args...)
		tx.Payload, _ = att.ToBytes()
		tx.Amount = new(big.Int).Add(minStake, big.NewInt(int64(t.Choose("ctx.stakeextra", 1000))))
		if t.Choose("ctx.lowstake", 8) == 0 {
			tx.Amount = new(big.Int).Div(minStake, big.NewInt(2))
		}
		what = "deploy:" + k
	case kindSel == 3: // deploy wasm
		names := []string{"wasm:erc20", "wasm:inc", "wasm:sum", "wasm:testcases", "wasm:sharedtoken"}
		k := names[t.Choose("ctx.wasm", len(names))]
		code, err := wasmCodes[k]()
		if err != nil {
			return nil, ""
		}
		var args [][]byte
		switch k {
		case "wasm:sum":
			inc := common.Address{0x9}
			for _, c := range s.Contracts {
				if c.Kind == "wasm:inc" {
					inc = c.Addr
				}
			}
			args = [][]byte{inc.Bytes()}
		case "wasm:sharedtoken":
			args = [][]byte{id.Addr.Bytes(), other.Addr.Bytes()}
		}
		if t.Choose("ctx.randdeployargs", 6) == 0 {
			args = randArgs()
		}
		tx.Type = types.DeployContractTx
		att := attachments.CreateDeployContractAttachment(common.Hash{}, code, []byte{byte(t.Choose("ctx.wasmnonce", 200))}, args...)
		tx.Payload, _ = att.ToBytes()
		if t.Choose("ctx.wasmamount", 3) == 0 {
			tx.Amount = big.NewInt(int64(1 + t.Choose("ctx.wasmamt", 100000)))
		}
		what = "deploy:" + k
	case kindSel <= 8 && someContract != nil: // call
		c := someContract
		ms := contractMethods[c.Kind]
		method := "nosuchmethod"
		if len(ms) > 0 && t.Choose("ctx.knownmethod", 6) != 0 {
			method = ms[t.Choose("ctx.method", len(ms))]
		}
		var args [][]byte
		amt := new(big.Int).Div(st.GetBalance(id.Addr), big.NewInt(int64(50+t.Choose("ctx.amtdiv", 1000))))
		switch c.Kind + "." + method {
		case "timelock.transfer", "multisig.send", "wasm:erc20.transfer", "wasm:sharedtoken.transferTo":
			args = [][]byte{other.Addr.Bytes(), new(big.Int).Div(st.GetBalance(c.Addr), big.NewInt(int64(1+t.Choose("ctx.share", 3)))).Bytes()}
			switch t.Choose("ctx.dest", 8) {
			case 0:
				args[0] = c.Addr.Bytes() // the contract pays itself
			case 1:
				if len(s.Contracts) > 1 {
					args[0] = s.Contracts[t.Choose("ctx.destcontract", len(s.Contracts))].Addr.Bytes() // another contract
				}
			}
			if t.Choose("ctx.overdraw", 4) == 0 {
				args[1] = new(big.Int).Add(st.GetBalance(c.Addr), big.NewInt(1)).Bytes()
			}
		case "multisig.add":
			args = [][]byte{other.Addr.Bytes()}
		case "multisig.push":
			args = [][]byte{other.Addr.Bytes(), st.GetBalance(c.Addr).Bytes()}
			if t.Choose("ctx.pushself", 6) == 0 {
				args[0] = c.Addr.Bytes()
			}
		case "oraclevoting.sendVoteProof":
			args = [][]byte{make([]byte, 32)}
		case "oraclevoting.sendVote":
			args = [][]byte{{byte(t.Choose("ctx.vote", 3))}, []byte("salt")}
		case "wasm:sum.invoke", "wasm:inc.invoke":
			args = [][]byte{u64(uint64(t.Choose("ctx.a", 100))), u64(uint64(t.Choose("ctx.b", 100)))}
		case "wasm:testcases.test":
			code, _ := testdata.SumFunc()
			args = [][]byte{common.ToBytes(uint32(t.Choose("ctx.testcase", 12))), code}
		default:
			args = randArgs()
		}
		if t.Choose("ctx.randcallargs", 8) == 0 {
			args = randArgs()
		}
		tx.Type = types.CallContractTx
		tx.To = &c.Addr
		att := attachments.CreateCallContractAttachment(method, args...)
		tx.Payload, _ = att.ToBytes()
		if t.Choose("ctx.callamount", 2) == 0 {
			tx.Amount = amt
		}
		what = fmt.Sprintf("call:%s.%s", c.Kind, method)
	case someContract != nil: // terminate
		c := someContract
		tx.Type = types.TerminateContractTx
		tx.To = &c.Addr
		att := attachments.CreateTerminateContractAttachment(other.Addr.Bytes())
		if t.Choose("ctx.termargs", 4) == 0 {
			att = attachments.CreateTerminateContractAttachment(randArgs()...)
		}
		tx.Payload, _ = att.ToBytes()
		if t.Choose("ctx.termowner", 3) != 0 && c.Owner != nil {
			id = c.Owner
			nonce, ep = s.NextNonce(view, id)
			tx.AccountNonce, tx.Epoch = nonce, ep
		}
		what = "terminate:" + c.Kind
	default:
		return nil, ""
	}
	// max fee: the plain fee plus a drawn gas allowance, sometimes too small, sometimes huge
	f := fee.CalculateFee(view.App.ValidatorsCache.NetworkSize(), feeRate, tx)
	gasAllowance := []int64{0, 100, 5000, 60000, 400000, 3000000}[t.Choose("ctx.gas", 6)]
	tx.MaxFee = new(big.Int).Add(f, new(big.Int).Mul(feeRate, big.NewInt(gasAllowance)))
	if t.Choose("ctx.tips", 8) == 0 {
		tx.Tips = big.NewInt(int64(1e12) * int64(1+t.Choose("ctx.tipsamount", 100)))
	}
	stx := s.sign(tx, id)
	if tx.Type == types.DeployContractTx {
		if s.pendingDeploys == nil {
			s.pendingDeploys = map[common.Hash]string{}
		}
		s.pendingDeploys[stx.Hash()] = what[len("deploy:"):]
	}
	return stx, what
}
