// Package scen builds ledger scenarios: a tape-drawn network configuration,
// replicas of the real node core, simulated clients, a round driver that uses
// the real proposal / validation / insertion / certificate code, and a scripted
// epoch function that feeds drawn validation outcomes through the real
// applyOnState.
package scen

import (
	"bytes"
	"crypto/ecdsa"
	"crypto/sha256"
	"encoding/binary"
	"fmt"
	"math/big"
	"sort"
	"time"

	"github.com/idena-network/idena-go/blockchain/types"
	"github.com/idena-network/idena-go/common"
	"github.com/idena-network/idena-go/config"
	"github.com/idena-network/idena-go/core/appstate"
	"github.com/idena-network/idena-go/core/ceremony"
	"github.com/idena-network/idena-go/core/state"
	"github.com/idena-network/idena-go/crypto"
	"github.com/idena-network/idena-go/stats/collector"
	"github.com/shopspring/decimal"

	"verif/sim/seamrt"
	"verif/sim/simdisk"
	"verif/sim/simipfs"
	"verif/sim/simnode"
	"verif/sim/vfw"
)

type Ident struct {
	Idx   int
	Key   *ecdsa.PrivateKey
	Addr  common.Address
	PubK  []byte
	Init  state.IdentityState
	Nonce map[uint16]uint32 // harness-side next nonce hint per epoch
	label string
}

// KeyFor derives a private key from a label (never GenerateKey: nondeterministic on Go >= 1.20).
func KeyFor(label string, i int) *ecdsa.PrivateKey {
	for ctr := 0; ; ctr++ {
		h := sha256.Sum256([]byte(fmt.Sprintf("verif-key/%s/%d/%d", label, i, ctr)))
		k, err := crypto.ToECDSA(h[:])
		if err == nil {
			return k
		}
	}
}

func NewIdent(label string, i int) *Ident {
	k := KeyFor(label, i)
	return &Ident{Idx: i, Key: k, Addr: crypto.PubkeyToAddress(k.PublicKey), PubK: crypto.FromECDSAPub(&k.PublicKey), Nonce: map[uint16]uint32{}}
}

type Opts struct {
	MinIdent, MaxIdent int
	MinReplicas        int
	MaxReplicas        int
	// FirstCeremonyIn: simulated time from start to the first validation; 0 = far future (no epoch in run)
	CeremonySoon    bool
	Rich            bool // funded accounts get a million coins
	SmallShards     bool // some runs use small shard size limits (several shards after the first epoch change)
	RealEpochDays   bool // ValidationInterval = 0: use the protocol's epoch length (needs large networks)
	BigNetworkBias  int  // 1-in-N runs draw MaxIdent towards the upper bound
	Zones           bool // give replicas different time zones
	Skew            bool // give replicas clock skew
	Contracts       bool
	Versions        []config.ConsensusVerson // allowed consensus versions (default all)
	NoShuffleSeeds  bool
	MostlyValidated bool // genesis identities are Verified/Human/Newbie with few exceptions
	// BulkAccounts: this many further plain accounts in the genesis allocation (nobody holds their keys): large state
	// trees, snapshots of several archive blocks
	BulkAccounts int
}

type Scn struct {
	R             *vfw.Run
	SmallShardsOn bool // this run uses small shard size limits
	// CraftedEvidence: payloads of evidence transactions the harness made up (see HostileEvidencePayload)
	CraftedEvidence map[string]bool
	W               *seamrt.World
	T               *seamrt.Tape
	Cfg             *config.Config
	Ids             []*Ident // genesis identities; Ids[0] is god
	Extra           []*Ident // plain accounts / fresh keys
	byAddr          map[common.Address]*Ident
	Nodes           []*simnode.Node
	Net             *simipfs.Net
	Script          uint64
	// PassBias: 0 = outcomes drawn uniformly over the score tables, 1 = most identities pass, 2 = nearly all pass
	PassBias int
	Opts     Opts
	// RealCeremony: replicas run the real ValidationCeremony instead of the scripted epoch function
	RealCeremony   bool
	Contracts      []*Contract
	pendingDeploys map[common.Hash]string
	// statistics
	Blocks, EmptyBlocks, TxIncluded int
}

var zones = []*time.Location{
	time.UTC,
	time.FixedZone("UTC+9", 9*3600),
	time.FixedZone("UTC-12", -12*3600),
	time.FixedZone("UTC+14", 14*3600),
	time.FixedZone("UTC+5:45", 5*3600+45*60),
	time.FixedZone("UTC-3:30", -(3*3600 + 30*60)),
}

var dna = common.DnaBase

func dnaMul(n int64) *big.Int { return new(big.Int).Mul(big.NewInt(n), dna) }

// New draws the configuration.
func New(r *vfw.Run, o Opts) *Scn {
	s := &Scn{R: r, W: r.W, T: r.Tape, Opts: o, byAddr: map[common.Address]*Ident{}, Net: simipfs.NewNet(), CraftedEvidence: map[string]bool{}}
	t := r.Tape
	if o.MinIdent <= 0 {
		o.MinIdent = 1
	}
	if o.MaxIdent < o.MinIdent {
		o.MaxIdent = o.MinIdent
	}
	// tuning knob (process-wide, so set on every run): the shard size limits. With the protocol's 2400 / 5000 a simulated
	// network stays in one shard for ever; small limits split it at its first epoch change (blockchain.balanceShards)
	common.VerifSetShardSizes(2400, 5000)
	if o.SmallShards {
		if k := t.ChooseOpt("cfg.smallshards", 4); k != 0 {
			lim := [][2]int{{2, 4}, {3, 6}, {4, 9}}[k-1]
			if common.VerifSetShardSizes(lim[0], lim[1]) {
				r.Probe(fmt.Sprintf("shard_size_limits_%d_%d", lim[0], lim[1]))
				s.SmallShardsOn = true
			}
		}
	}
	n := o.MinIdent + t.Choose("cfg.nident", o.MaxIdent-o.MinIdent+1)
	s.Script = uint64(t.Choose("cfg.script", 1<<30)) + 1
	s.PassBias = t.Choose("cfg.passbias", 3)

	// consensus config
	vers := o.Versions
	if len(vers) == 0 {
		vers = []config.ConsensusVerson{config.ConsensusV12, config.ConsensusV11, config.ConsensusV10, config.ConsensusV9}
	}
	ver := vers[t.Choose("cfg.version", len(vers))]
	cc := *config.ConsensusVersions[config.ConsensusV9]
	for v := config.ConsensusV10; v <= ver; v++ {
		config.ApplyConsensusVersion(v, &cc)
	}
	cc.Automine = false
	ranges := []uint64{3, 5, 8, 50}
	cc.StatusSwitchRange = ranges[t.Choose("cfg.statusrange", len(ranges))]
	cc.DelegationSwitchRange = ranges[t.Choose("cfg.delegrange", len(ranges))]
	cc.DiscriminationSwitchRange = ranges[t.Choose("cfg.discrrange", len(ranges))]
	snaps := []uint64{7, 12, 25, 1000}
	cc.SnapshotRange = snaps[t.Choose("cfg.snaprange", len(snaps))]
	burn := []uint64{4, 9, 4320}
	cc.BurnTxRange = burn[t.Choose("cfg.burnrange", len(burn))]
	cc.OfflinePenaltyDuration = time.Duration(1+t.Choose("cfg.penaltydur", 4)) * 10 * time.Minute

	val := &config.ValidationConfig{}
	if !o.RealEpochDays {
		val.ValidationInterval = time.Duration(20+t.Choose("cfg.valinterval", 40)) * time.Minute
	}
	val.FlipLotteryDuration = time.Duration(1+t.Choose("cfg.lottery", 3)) * time.Minute
	val.ShortSessionDuration = time.Duration(1+t.Choose("cfg.short", 2)) * time.Minute
	val.LongSessionDuration = time.Duration(1+t.Choose("cfg.long", 3)) * time.Minute

	first := int64(4070908800) // 2099
	if o.CeremonySoon {
		// Saturday 15:00 UTC style anchor is handled by the caller through BaseTime; here: start + 8..30 min
		first = vfw.BaseTime.Add(time.Duration(8+t.Choose("cfg.firstceremony", 23)) * time.Minute).Unix()
	}

	if o.RealEpochDays && t.Choose("cfg.first1330", 2) == 0 {
		// the protocol's own calendar has special cases by clock time (13:30 UTC ceremonies move to 15:00 with upgrade 12)
		first = vfw.BaseTime.Add(90 * time.Minute).Unix()
	}
	alloc := map[common.Address]config.GenesisAllocation{}
	states := []state.IdentityState{state.Verified, state.Human, state.Newbie, state.Verified, state.Candidate, state.Suspended, state.Zombie, state.Invite, state.Undefined, state.Human}
	for i := 0; i < n; i++ {
		id := NewIdent("id", i)
		st := states[t.Choose("cfg.state", len(states))]
		if o.MostlyValidated && t.Choose("cfg.state.validated", 12) != 0 {
			st = []state.IdentityState{state.Verified, state.Human, state.Newbie, state.Verified}[t.Choose("cfg.state.v", 4)]
		}
		if i == 0 {
			// god: either a plain account or an identity
			if t.Choose("cfg.godstate", 3) == 0 {
				st = state.Undefined
			} else {
				st = state.Verified
			}
		} else if i <= 3 {
			// the first identities host replicas: make them validated
			st = []state.IdentityState{state.Verified, state.Human, state.Newbie}[t.Choose("cfg.repstate", 3)]
		}
		id.Init = st
		bal := []int64{0, 1, 50, 1000, 100000}[t.Choose("cfg.balance", 5)]
		if i <= 3 && bal < 50 {
			bal = 1000
		}
		if o.Rich && bal > 0 {
			bal = 1000000 // senders that can afford transactions of a third of a block
		}
		stk := []int64{0, 0, 1, 20, 500, 30000}[t.Choose("cfg.stake", 6)]
		ga := config.GenesisAllocation{State: uint8(st)}
		if bal > 0 {
			ga.Balance = dnaMul(bal)
		}
		if stk > 0 && st != state.Undefined {
			ga.Stake = dnaMul(stk)
		}
		alloc[id.Addr] = ga
		s.Ids = append(s.Ids, id)
		s.byAddr[id.Addr] = id
	}
	// a few plain funded accounts and dust accounts
	nx := 2 + t.Choose("cfg.nextra", 5)
	for i := 0; i < nx; i++ {
		id := NewIdent("acct", i)
		bal := []*big.Int{dnaMul(500), big.NewInt(1), big.NewInt(999), dnaMul(3), new(big.Int).Lsh(big.NewInt(1), 90)}[t.Choose("cfg.xbalance", 5)]
		alloc[id.Addr] = config.GenesisAllocation{Balance: bal}
		s.Extra = append(s.Extra, id)
		s.byAddr[id.Addr] = id
	}
	for i := 0; i < o.BulkAccounts; i++ {
		var a common.Address
		a[0], a[1], a[2], a[3] = 0xb0, byte(i>>16), byte(i>>8), byte(i)
		a[19] = byte(i * 7)
		alloc[a] = config.GenesisAllocation{Balance: dnaMul(2)}
	}
	s.Cfg = &config.Config{
		Network:          0x99,
		Consensus:        &cc,
		GenesisConf:      &config.GenesisConf{Alloc: alloc, GodAddress: s.Ids[0].Addr, FirstCeremonyTime: first},
		Validation:       val,
		Blockchain:       &config.BlockchainConfig{StoreCertRange: uint64(2 + t.Choose("cfg.certrange", 6))},
		OfflineDetection: config.GetDefaultOfflineDetectionConfig(),
		Mempool:          config.GetDefaultMempoolConfig(),
		Sync:             &config.SyncConfig{},
		IpfsConf:         &config.IpfsConfig{},
	}
	s.Opts = o
	r.Logf("cfg nident=%d nextra=%d ver=%d ranges=%d/%d/%d snap=%d first=%d", n, nx, ver, cc.StatusSwitchRange, cc.DelegationSwitchRange, cc.DiscriminationSwitchRange, cc.SnapshotRange, first)
	return s
}

// AddNode creates and starts a replica holding the key of identity idx on the given disk (nil = fresh).
func (s *Scn) AddNode(idx int, disk *simdisk.Disk) *simnode.Node {
	return s.AddNodeFor(s.Ids[idx], disk)
}

// AddNodeFor creates and starts a replica holding id's key (id need not be a genesis identity).
func (s *Scn) AddNodeFor(id *Ident, disk *simdisk.Disk) *simnode.Node {
	if disk == nil {
		disk = simdisk.New()
	}
	n := simnode.New(s.W, len(s.Nodes), id.Key, s.Cfg, disk, s.Net.NewStore(), s.R.Dir)
	n.Epoch = s.ScriptedEpoch
	n.WithCeremony = s.RealCeremony
	t := s.T
	if s.Opts.Zones {
		n.Ctx.Zone = zones[t.Choose("node.zone", len(zones))]
	}
	if s.Opts.Skew {
		n.Ctx.Skew = time.Duration(t.Choose("node.skew", 61)-30) * time.Second
		if t.Choose("node.skew0", 2) == 0 {
			n.Ctx.Skew = 0
		}
	}
	n.Ctx.MapSeed = uint64(t.Choose("node.mapseed", 1<<20)) + 1
	s.Nodes = append(s.Nodes, n)
	err, pv, st := n.Start()
	if pv != nil {
		s.R.Trouble("node %d start panicked: %v\n%s", n.ID, pv, st)
	}
	if err != nil {
		s.R.Trouble("node %d start failed: %v", n.ID, err)
	}
	return n
}

// Restart re-runs the start-up sequence of node n over its (surviving) disk.
func (s *Scn) Restart(n *simnode.Node) (error, interface{}, string) {
	n.Stop()
	return n.Start()
}

func (s *Scn) Close() {
	for _, n := range s.Nodes {
		n.Stop()
	}
}

func (s *Scn) IdentOf(a common.Address) *Ident { return s.byAddr[a] }

// RegisterIdent makes an identity created by a check known to the scenario (signing, lookups).
func (s *Scn) RegisterIdent(id *Ident) { s.byAddr[id.Addr] = id }

func (s *Scn) AllActors() []*Ident { return append(append([]*Ident{}, s.Ids...), s.Extra...) }

// ---------- scripted epoch ----------

func (s *Scn) hashf(parts ...interface{}) uint64 {
	h := sha256.New()
	var b [8]byte
	binary.LittleEndian.PutUint64(b[:], s.Script)
	h.Write(b[:])
	for _, p := range parts {
		switch v := p.(type) {
		case common.Address:
			h.Write(v[:])
		case uint16:
			binary.LittleEndian.PutUint64(b[:], uint64(v))
			h.Write(b[:])
		case int:
			binary.LittleEndian.PutUint64(b[:], uint64(v))
			h.Write(b[:])
		case string:
			h.Write([]byte(v))
		}
	}
	return binary.LittleEndian.Uint64(h.Sum(nil)[:8])
}

// ScriptedEpoch plays the role of ValidationCeremony.ApplyNewEpoch: the outcome of
// every identity is a pure function of (scenario script, address, epoch, identity
// as stored in the state under evaluation) - i.e. of on-chain data - decided by the
// real determineNewIdentityState on drawn scores and applied with the real
// applyOnState. Identical on every replica by construction.
func (s *Scn) ScriptedEpoch(n *simnode.Node, height uint64, app *appstate.AppState, sc collector.StatsCollector) types.TotalValidationResult {
	cc := n.Cfg.Consensus
	epoch := app.State.Epoch()
	type ent struct {
		addr common.Address
		id   state.Identity
	}
	var ents []ent
	app.State.IterateOverIdentities(func(a common.Address, id state.Identity) { ents = append(ents, ent{a, id}) })
	sort.Slice(ents, func(i, j int) bool { return bytes.Compare(ents[i].addr[:], ents[j].addr[:]) < 0 })
	shards := int(app.State.ShardsNum())
	res := map[common.ShardId]*types.ValidationResults{}
	for sh := 1; sh <= shards; sh++ {
		res[common.ShardId(sh)] = &types.ValidationResults{
			BadAuthors:              map[common.Address]types.BadAuthorReason{},
			GoodAuthors:             map[common.Address]*types.ValidationResult{},
			AuthorResults:           map[common.Address]*types.AuthorResults{},
			GoodInviters:            map[common.Address]*types.InviterValidationResult{},
			ReportersToRewardByFlip: map[int]map[common.Address]*types.Candidate{},
		}
	}
	failAll := s.hashf("failall", epoch)%17 == 0
	type val struct {
		addr common.Address
		v    ceremony.VerifCacheValue
	}
	var vals []val
	validatedCnt := 0
	for _, e := range ents {
		id := e.id
		h := s.hashf("outcome", e.addr, epoch)
		pick := func(k int) int { v := int(h % uint64(k)); h /= uint64(k); return v }
		var ns state.IdentityState
		missed := false
		var shortQ uint32
		var shortPts float32
		if state.IsCeremonyCandidate(id) {
			scoresTab := []float32{0, 0.5, 0.6, 0.74, 0.75, 0.8, 0.92, 1}
			shortScore := scoresTab[pick(len(scoresTab))]
			longScore := scoresTab[pick(len(scoresTab))]
			totalScore := scoresTab[pick(len(scoresTab))]
			totalFlips := []uint32{0, 5, 12, 13, 23, 24, 40}[pick(7)]
			missed = pick(6) == 0 || failAll
			noQualShort := pick(8) == 0
			noQualLong := pick(8) == 0
			shortQ = []uint32{0, 1, 2, 6}[pick(4)]
			if s.PassBias > 0 && pick(2+4*s.PassBias) != 0 {
				// a participant that did well
				shortScore, longScore, totalScore = scoresTab[5+pick(3)], scoresTab[4+pick(4)], scoresTab[4+pick(4)]
				totalFlips = []uint32{13, 24, 40}[pick(3)]
				missed, noQualShort, noQualLong, shortQ = failAll, false, false, 6
			}
			shortPts = shortScore * float32(shortQ)
			ns = ceremony.VerifDetermineNewIdentityState(id, shortScore, longScore, totalScore, totalFlips, missed, noQualShort, noQualLong, true, cc.EnableUpgrade10, shortQ, cc.EnableUpgrade12)
		} else {
			missed = true
			ns = ceremony.VerifDetermineNewIdentityState(id, 0, 0, 0, 0, true, false, false, true, cc.EnableUpgrade10, 0, cc.EnableUpgrade12)
		}
		bd := ceremony.VerifDetermineIdentityBirthday(epoch, id, ns)
		v := ceremony.VerifCacheValue{State: ns, PrevState: id.State, ShortQualifiedFlipsCount: shortQ, ShortFlipPoint: shortPts, Birthday: bd, Missed: missed,
			Participated: id.ValidationTxsBits != 0, Delegatee: id.Delegatee()}
		vals = append(vals, val{e.addr, v})
		if ns.NewbieOrBetter() {
			validatedCnt++
		}
	}
	pools := map[common.Address]struct{}{}
	nonValidated := map[common.Address]*big.Int{}
	if validatedCnt == 0 {
		n.W.Logf("epoch-script node=%d h=%d epoch=%d FAILED (nobody validated)", n.ID, height, epoch)
		return types.TotalValidationResult{IdentitiesCount: app.ValidatorsCache.NetworkSize(), ShardResults: res, Pools: pools, NonValidatedStakes: nonValidated, Failed: true}
	}
	cnt := 0
	for _, x := range vals {
		validated, pool, nvs := ceremony.VerifApplyOnState(cc, app, epoch, sc, x.addr, x.v)
		if validated {
			cnt++
		}
		if pool != nil {
			pools[*pool] = struct{}{}
		}
		if nvs != nil {
			nonValidated[x.addr] = nvs
		}
	}
	// reward-relevant results: drawn author / inviter / reporter sets among the validated
	for _, x := range vals {
		if !x.v.State.NewbieOrBetter() {
			continue
		}
		id := app.State.GetIdentity(x.addr)
		sr := res[id.ShiftedShardId()]
		if sr == nil {
			continue
		}
		h := s.hashf("rewards", x.addr, epoch)
		switch h % 5 {
		case 0:
			sr.BadAuthors[x.addr] = types.BadAuthorReason(h / 5 % 3)
		case 1, 2:
			nf := 1 + int(h/5%6)
			fl := make([]*types.FlipToReward, 0, nf)
			for k := 0; k < nf; k++ {
				fl = append(fl, &types.FlipToReward{Cid: []byte{byte(k), byte(h >> 8)}, Grade: types.Grade(2 + (h>>uint(4*k))%4), GradeScore: decimal.New(int64(15+(h>>uint(4*k))%40), -1)})
			}
			sr.GoodAuthors[x.addr] = &types.ValidationResult{FlipsToReward: fl, NewIdentityState: uint8(x.v.State), Missed: x.v.Missed}
		}
		if (h>>20)%4 == 0 {
			m := map[common.Address]*types.Candidate{x.addr: {Address: x.addr, NewIdentityState: uint8(x.v.State)}}
			sr.ReportersToRewardByFlip[int(h>>24)%7] = m
		}
		if (h>>32)%3 == 0 {
			// successful invite of another validated identity (drawn), ages 1..3
			other := vals[int((h>>48)%uint64(len(vals)))]
			if other.v.State.NewbieOrBetter() && other.addr != x.addr {
				sr.GoodInviters[x.addr] = &types.InviterValidationResult{
					SuccessfulInvites:   []*types.SuccessfulInvite{{Age: uint16(1 + (h>>36)%3), TxHash: common.Hash{byte(h >> 40)}, EpochHeight: uint32((h >> 44) % 50), Penalized: (h>>52)%4 == 0, Address: other.addr}},
					PayInvitationReward: true, NewIdentityState: uint8(x.v.State)}
			}
		}
	}
	n.W.Logf("epoch-script node=%d h=%d epoch=%d validated=%d/%d", n.ID, height, epoch, cnt, len(vals))
	return types.TotalValidationResult{IdentitiesCount: cnt, ShardResults: res, Pools: pools, NonValidatedStakes: nonValidated, Failed: false}
}

var cidStore = simipfs.NewNet().NewStore()

func simCid(data []byte) ([]byte, error) {
	c, err := cidStore.Cid(data)
	if err != nil {
		return nil, err
	}
	return c.Bytes(), nil
}

// SimCid is the content identifier the simulated store gives to data.
func SimCid(data []byte) ([]byte, error) { return simCid(data) }
