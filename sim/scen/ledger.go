package scen

import (
	"bytes"
	"fmt"
	"math/big"
	"time"

	"github.com/idena-network/idena-go/blockchain/fee"

	"github.com/idena-network/idena-go/blockchain/types"
	"github.com/idena-network/idena-go/common"

	"verif/sim/simnode"
)

// RoundResult describes what one round of the ledger driver did.
type RoundResult struct {
	Height    uint64
	Empty     bool
	Proposer  *simnode.Node
	Block     *types.Block
	Enc       []byte
	Prev      *types.Header
	Flags     types.BlockFlag
	Txs       int
	Submitted int
	Accepted  int
	// SelfErr is set when the proposer's own full validation of the block it just built fails
	// (property C02); SelfPred classifies it, SelfDetail describes the state difference.
	// HostileCandidates: the proposer's candidate list was replaced by the check (CandidateHook)
	HostileCandidates bool
	SelfErr           error
	SelfPred          string
	SelfDetail        string
}

// Ledger is the round driver over a set of replicas that follow one chain.
type Ledger struct {
	S       *Scn
	Mix     Mix
	MaxTxs  int
	NoCerts bool
	// ForceEmpty1in: 1-in-N rounds produce an empty block (proposer silent)
	ForceEmpty1in int
	// Hook called for each (validator, proposal) before insertion; return false to skip default handling
	OnDeliver func(rr *RoundResult, to *simnode.Node) bool
	LastCert  map[int]common.Hash
	round     int
	gossip    []gossipItem
	// GossipDrop1in: 1-in-N gossip deliveries are lost (0 = never)
	GossipDrop1in int
	// CandidateHook, when set, may replace the candidate list the round's proposer builds its block from
	// (a proposer with a hostile mempool; the rest of block building is the node's own code). nil = keep.
	CandidateHook func(p *simnode.Node, honest []*types.Transaction) []*types.Transaction
	// PanicProp: property blamed when block building or the proposer's own validation panics (default C02)
	PanicProp string
}

type gossipItem struct {
	tx  *types.Transaction
	to  *simnode.Node
	due int
}

func (l *Ledger) panicProp() string {
	if l.PanicProp != "" {
		return l.PanicProp
	}
	return "C02"
}

func NewLedger(s *Scn) *Ledger {
	return &Ledger{S: s, Mix: Mix{Adversarial: 6, Identity: true, Ceremony: true}, MaxTxs: 6, ForceEmpty1in: 9, LastCert: map[int]common.Hash{}, GossipDrop1in: 10}
}

func roots(n *simnode.Node) string {
	h := n.Chain.Head
	return fmt.Sprintf("h=%d hash=%x root=%x idroot=%x", h.Height(), h.Hash().Bytes()[:6], n.App.State.Root().Bytes()[:6], n.App.IdentityState.Root().Bytes()[:6])
}

// SubmitSome draws and submits transactions to drawn subsets of nodes.
func (l *Ledger) SubmitSome(nodes []*simnode.Node) (submitted, accepted int) {
	s := l.S
	l.round++
	// due gossip deliveries
	var keep []gossipItem
	for _, g := range l.gossip {
		if g.due > l.round {
			keep = append(keep, g)
			continue
		}
		_ = s.Submit(g.to, g.tx)
	}
	l.gossip = keep
	k := s.T.Choose("round.ntx", l.MaxTxs+1)
	for i := 0; i < k; i++ {
		view := nodes[s.T.Choose("round.txview", len(nodes))]
		var tx *types.Transaction
		var what string
		contract := l.Mix.Contracts > 0 && s.T.Choose("round.contract", l.Mix.Contracts) == 0
		pv, st := view.Do(func() {
			if contract {
				tx, what = s.GenContractTx(view)
			} else {
				tx, what = s.GenTx(view, l.Mix)
			}
		})
		if pv != nil {
			s.R.Trouble("GenTx panicked: %v\n%s", pv, st)
		}
		if tx == nil {
			continue
		}
		submitted++
		// deliver to a drawn non-empty subset of nodes (gossip with loss)
		mask := 1 + s.T.Choose("round.txmask", (1<<uint(len(nodes)))-1)
		okAny := false
		for j, n := range nodes {
			if mask&(1<<uint(j)) == 0 {
				continue
			}
			if err := s.Submit(n, tx); err == nil {
				okAny = true
			}
		}
		if okAny {
			accepted++
			s.NoteAccepted(tx)
			// gossip: nodes that did not get it directly receive it 0-3 rounds later (sometimes never)
			for j, n := range nodes {
				if mask&(1<<uint(j)) != 0 {
					continue
				}
				if l.GossipDrop1in > 0 && s.T.Choose("gossip.drop", l.GossipDrop1in) == l.GossipDrop1in-1 {
					s.R.Fault("tx_gossip_dropped")
					continue
				}
				d := s.T.Choose("gossip.delay", 4)
				if d > 0 {
					s.R.Fault("tx_gossip_delayed")
				}
				l.gossip = append(l.gossip, gossipItem{tx, n, l.round + d})
			}
		}
		snd, _ := types.Sender(tx)
		to := "nil"
		if tx.To != nil {
			to = fmt.Sprintf("%x", tx.To[:3])
		}
		s.R.Logf("tx %s from=%x to=%s nonce=%d ep=%d type=%d amt=%v mask=%b ok=%v", what, snd[:3], to, tx.AccountNonce, tx.Epoch, tx.Type, tx.Amount, mask, okAny)
	}
	return
}

// Round runs one block round over nodes, which must share the same head.
// Returns nil if no block could be produced.
func (l *Ledger) Round(nodes []*simnode.Node) *RoundResult {
	s := l.S
	s.Tick()
	l.maybeFastForward(nodes[0])
	rr := &RoundResult{Prev: nodes[0].Chain.Head}
	rr.Submitted, rr.Accepted = l.SubmitSome(nodes)
	el := s.Eligible(nodes)
	if len(el) == 0 && l.round%4 == 0 && nodes[0].App.State.ValidationPeriod() == 0 {
		// nobody can propose (e.g. everybody went offline at the epoch change): the operators switch their nodes online again
		l.BringOnline(nodes)
	}
	empty := len(el) == 0 || (l.ForceEmpty1in > 0 && s.T.Choose("round.empty", l.ForceEmpty1in) == l.ForceEmpty1in-1)
	if empty {
		n0 := nodes[s.T.Choose("round.emptyby", len(nodes))]
		b, pv, st := s.EmptyBlock(n0)
		if pv != nil {
			s.R.Violate(l.panicProp()+":empty-block-generation-panicked", "node %d: %v\n%s", n0.ID, pv, st)
		}
		rr.Empty = true
		rr.Block = b
		rr.Proposer = n0
		s.EmptyBlocks++
	} else {
		p := el[s.T.Choose("round.proposer", len(el))]
		var prop *types.BlockProposal
		var pv interface{}
		var st string
		var hostile []*types.Transaction
		if l.CandidateHook != nil {
			p.Do(func() { hostile = l.CandidateHook(p, p.Pool.BuildBlockTransactions()) })
		}
		if hostile != nil {
			pv, st = p.Do(func() {
				_, proof := p.Chain.GetProposerSortition()
				prop = p.Chain.VerifProposeBlockWithTxs(proof, hostile)
			})
			rr.HostileCandidates = true
			if pv == nil && prop != nil {
				// a block that the proposer's own validation refuses is of no use to anybody: the round goes on with an honest one
				if enc, err := prop.Block.ToBytes(); err == nil {
					if verr, vpv, _ := s.Validate(p, enc); verr != nil || vpv != nil {
						s.R.Probe("block_from_hostile_candidates_refused_by_own_validation")
						rr.HostileCandidates = false
						prop, pv, st = s.Propose(p)
					}
				}
			}
		} else {
			prop, pv, st = s.Propose(p)
		}
		if pv != nil {
			s.R.Violate(l.panicProp()+":propose-panicked", "node %d: %v\n%s", p.ID, pv, st)
		}
		rr.Block = prop.Block
		rr.Proposer = p
	}
	enc, err := rr.Block.ToBytes()
	if err != nil {
		s.R.Trouble("encode block: %v", err)
	}
	rr.Enc = enc
	rr.Height = rr.Block.Height()
	rr.Flags = rr.Block.Header.Flags()
	rr.Txs = len(rr.Block.Body.Transactions)
	s.Blocks++
	s.TxIncluded += rr.Txs
	s.R.Logf("block h=%d empty=%v by=%d txs=%d flags=%b hash=%x", rr.Height, rr.Empty, rr.Proposer.ID, rr.Txs, rr.Flags, rr.Block.Hash().Bytes()[:6])
	if !rr.Empty {
		built := rr.Proposer.LastApplied
		serr, pv, st := s.Validate(rr.Proposer, rr.Enc)
		if pv != nil {
			s.R.Violate(l.panicProp()+":validation-panicked", "node %d validating its own block h=%d: %v\n%s", rr.Proposer.ID, rr.Height, pv, st)
		}
		if serr != nil {
			rr.SelfErr = serr
			rr.SelfPred = "C02:honest-block-rejected"
			var tt []uint16
			for _, tx := range rr.Block.Body.Transactions {
				tt = append(tt, uint16(tx.Type))
			}
			rr.SelfDetail = fmt.Sprintf("node %d rejects the block h=%d (%d txs of types %v) it has just built: %v; building state (A) vs validating state (B):%s", rr.Proposer.ID, rr.Height, rr.Txs, tt, serr, DiffStates(built, rr.Proposer.LastApplied))
			if only, _ := OnlyEmptyIdentityCreated(built, rr.Proposer.LastApplied); only {
				rr.SelfPred = "C02:honest-block-rejected/empty-identity-left-by-validation-of-filtered-tx"
			}
			s.R.Logf("proposer self-validation failed: %s", rr.SelfPred)
		}
	}
	return rr
}

// InsertAll inserts rr's block on every node. With strict, a rejection or panic is a
// violation "<prop>:..."; otherwise it is reported to the caller (ok=false) and counted.
func (l *Ledger) InsertAll(nodes []*simnode.Node, rr *RoundResult, prop string) bool {
	return l.insertAll(nodes, rr, prop, true)
}

// TryInsertAll is InsertAll for checks whose property is not block acceptance.
func (l *Ledger) TryInsertAll(nodes []*simnode.Node, rr *RoundResult) bool {
	return l.insertAll(nodes, rr, "", false)
}

func (l *Ledger) insertAll(nodes []*simnode.Node, rr *RoundResult, prop string, strict bool) bool {
	s := l.S
	for _, n := range nodes {
		if l.OnDeliver != nil && !l.OnDeliver(rr, n) {
			continue
		}
		err, pv, st := s.Insert(n, rr.Enc)
		if pv != nil {
			if !strict {
				s.R.Probe("scenario_cut_short:insert-panicked")
				s.R.Note("insert panicked on node %d h=%d: %v", n.ID, rr.Height, pv)
				return false
			}
			s.R.Violate(prop+":insert-panicked", "node %d block h=%d by node %d: %v\n%s", n.ID, rr.Height, rr.Proposer.ID, pv, st)
		}
		if err != nil {
			if !strict {
				s.R.Probe("scenario_cut_short:honest-block-rejected-by-peer")
				s.R.Note("node %d rejected block h=%d: %v", n.ID, rr.Height, err)
				return false
			}
			s.R.Violate(prop+":honest-block-rejected", "node %d rejected block h=%d (empty=%v) built by node %d: %v; proposer's state (A) vs this node's (B):%s", n.ID, rr.Height, rr.Empty, rr.Proposer.ID, err, DiffStates(rr.Proposer.LastApplied, n.LastApplied))
		}
	}
	return true
}

// Certify writes a certificate for rr's block on every node (built before insertion state is gone:
// uses the validators cache at Prev, so call it BEFORE InsertAll ... or use CertifyAfter).
func (l *Ledger) BuildCert(n *simnode.Node, rr *RoundResult) *types.BlockCert {
	cert, err := l.S.MakeCert(n, rr.Prev, rr.Block.Header, types.Final)
	if err != nil {
		l.S.R.Logf("cert h=%d: %v", rr.Height, err)
		return nil
	}
	return cert
}

func (l *Ledger) WriteCert(nodes []*simnode.Node, rr *RoundResult, cert *types.BlockCert) {
	if cert == nil {
		return
	}
	cb, _ := cert.ToBytes()
	for _, n := range nodes {
		n.Do(func() {
			c := new(types.BlockCert)
			if err := c.FromBytes(cb); err != nil {
				return
			}
			n.Chain.WriteCertificate(rr.Block.Hash(), c, n.Chain.IsPermanentCert(rr.Block.Header))
		})
	}
}

// Agree checks that all nodes have the same head and committed roots.
func (l *Ledger) Agree(nodes []*simnode.Node, prop string) {
	a := nodes[0]
	for _, b := range nodes[1:] {
		if a.Chain.Head.Hash() != b.Chain.Head.Hash() || a.App.State.Root() != b.App.State.Root() || a.App.IdentityState.Root() != b.App.IdentityState.Root() {
			l.S.R.Violate(prop+":replicas-diverged", "node %d: %s; node %d: %s", a.ID, roots(a), b.ID, roots(b))
		}
		if !bytes.Equal(a.Chain.Head.Root().Bytes(), a.App.State.Root().Bytes()) {
			l.S.R.Violate(prop+":head-root-mismatch", "node %d head root %x state root %x", a.ID, a.Chain.Head.Root(), a.App.State.Root())
		}
	}
}

// BringOnline submits go-online transactions for the replicas' own identities.
func (l *Ledger) BringOnline(nodes []*simnode.Node) {
	s := l.S
	for _, n := range nodes {
		id := s.IdentOf(n.Addr)
		if id == nil {
			continue
		}
		ok := false
		n.Do(func() { ok = n.App.ValidatorsCache.IsValidated(id.Addr) })
		if !ok {
			continue
		}
		var tx *types.Transaction
		n.Do(func() { tx = s.OnlineTx(n, id) })
		any := false
		for _, m := range nodes {
			if s.Submit(m, tx) == nil {
				any = true
			}
		}
		if any {
			s.NoteAccepted(tx)
		}
	}
}

// Usable tells a check other than C02 whether the round produced a block it can go on with.
// A block its own proposer rejects is property C02's business: C02 reports it, the other
// checks end their scenario there (counted by a probe) instead of blaming their own property.
func (l *Ledger) Usable(rr *RoundResult) bool {
	if rr.SelfErr == nil {
		return true
	}
	l.S.R.Probe("scenario_cut_short_by_C02_violation:" + rr.SelfPred)
	return false
}

// maybeFastForward lets the chain sit idle until shortly before the next validation
// (a legal history: the next block simply carries a later timestamp).
func (l *Ledger) maybeFastForward(n *simnode.Node) {
	s := l.S
	if n.App.State.ValidationPeriod() != 0 {
		return
	}
	next := n.App.State.NextValidationTime()
	lead := n.Cfg.Validation.GetFlipLotteryDuration() + 90*time.Second
	gap := next.Sub(s.W.TrueNow())
	if gap > lead && gap < 400*24*time.Hour && s.T.Choose("round.fastforward", 4) == 3 {
		s.W.Advance(gap - lead)
		s.R.Probe("fast_forward_to_ceremony")
	}
}

// SeedInviteePool submits the transactions that make an INVITED address a pool: god invites a fresh key with some
// funds, one to three validated identities delegate to it. What happens next (the delegation switch, the pool going
// online, its inviter terminating it, the invitation being activated ...) is left to the drawn client mix.
func (l *Ledger) SeedInviteePool(nodes []*simnode.Node) {
	s := l.S
	view := nodes[0]
	st := view.App.State
	god := s.byAddr[st.GodAddress()]
	if god == nil || st.GodAddressInvites() == 0 || st.ValidationPeriod() != 0 {
		return
	}
	x := s.fresh("invitee", s.T.Choose("seed.invitee", 12))
	var txs []*types.Transaction
	view.Do(func() {
		nonce, ep := s.NextNonce(view, god)
		amt := new(big.Int).Div(st.GetBalance(god.Addr), big.NewInt(20))
		tx := &types.Transaction{AccountNonce: nonce, Epoch: ep, Type: types.InviteTx, To: &x.Addr, Amount: amt}
		tx.MaxFee = new(big.Int).Mul(fee.CalculateFee(view.App.ValidatorsCache.NetworkSize(), FeeRate(view), tx), big.NewInt(3))
		txs = append(txs, s.sign(tx, god))
		k := 1 + s.T.Choose("seed.ndelegators", 3)
		for _, id := range s.Ids {
			if k == 0 {
				break
			}
			if id == god || !view.App.ValidatorsCache.IsValidated(id.Addr) || st.Delegatee(id.Addr) != nil || st.GetBalance(id.Addr).Sign() == 0 {
				continue
			}
			n2, e2 := s.NextNonce(view, id)
			d := &types.Transaction{AccountNonce: n2, Epoch: e2, Type: types.DelegateTx, To: &x.Addr}
			d.MaxFee = new(big.Int).Mul(fee.CalculateFee(view.App.ValidatorsCache.NetworkSize(), FeeRate(view), d), big.NewInt(3))
			txs = append(txs, s.sign(d, id))
			k--
		}
	})
	for _, tx := range txs {
		any := false
		for _, n := range nodes {
			if s.Submit(n, tx) == nil {
				any = true
			}
		}
		if any {
			s.NoteAccepted(tx)
		}
	}
	s.R.Probe("seeded_invitee_pool")
}

// SeedDrainedActivation sets up the history "an invitation address spends most of its funds and, in the same block,
// activates the invitation for a foreign funded wallet with a large tip": god invites a fresh key with funds now; once
// the invitation exists the invitee submits a SendTx of ~90 % of its balance followed by an ActivationTx (recipient: a
// plain funded account, payload: that account's public key, tips: half of the original balance). Both pass the mempool
// (which judges each against the committed state); whether the second may still be applied is the block's business.
func (l *Ledger) SeedDrainedActivation(nodes []*simnode.Node) {
	s := l.S
	view := nodes[0]
	st := view.App.State
	god := s.byAddr[st.GodAddress()]
	if god == nil || st.ValidationPeriod() != 0 || len(s.Extra) == 0 {
		return
	}
	x := s.fresh("drained-invitee", 1)
	var txs []*types.Transaction
	view.Do(func() {
		switch st.GetIdentityState(x.Addr) {
		case 0: // Undefined: invite
			if st.GodAddressInvites() == 0 {
				return
			}
			nonce, ep := s.NextNonce(view, god)
			amt := new(big.Int).Div(st.GetBalance(god.Addr), big.NewInt(25))
			tx := &types.Transaction{AccountNonce: nonce, Epoch: ep, Type: types.InviteTx, To: &x.Addr, Amount: amt}
			tx.MaxFee = new(big.Int).Mul(fee.CalculateFee(view.App.ValidatorsCache.NetworkSize(), FeeRate(view), tx), big.NewInt(3))
			txs = append(txs, s.sign(tx, god))
		case 1: // Invite: drain, then activate for a foreign funded wallet with a tip the rest cannot pay
			bal := st.GetBalance(x.Addr)
			if bal.Sign() == 0 || st.GetNonce(x.Addr) > 0 && st.GetEpoch(x.Addr) == st.Epoch() {
				return
			}
			var target *Ident
			for _, e := range s.Extra {
				if e.Init != 255 && st.GetBalance(e.Addr).Cmp(bal) > 0 && st.GetIdentityState(e.Addr) == 0 {
					target = e
					break
				}
			}
			if target == nil {
				return
			}
			ep := st.Epoch()
			to := god.Addr
			send := &types.Transaction{AccountNonce: 1, Epoch: ep, Type: types.SendTx, To: &to, Amount: new(big.Int).Div(new(big.Int).Mul(bal, big.NewInt(9)), big.NewInt(10))}
			send.MaxFee = new(big.Int).Mul(fee.CalculateFee(view.App.ValidatorsCache.NetworkSize(), FeeRate(view), send), big.NewInt(2))
			act := &types.Transaction{AccountNonce: 2, Epoch: ep, Type: types.ActivationTx, To: &target.Addr, Payload: target.PubK, Tips: new(big.Int).Div(bal, big.NewInt(2))}
			act.MaxFee = new(big.Int).Mul(fee.CalculateFee(view.App.ValidatorsCache.NetworkSize(), FeeRate(view), act), big.NewInt(2))
			txs = append(txs, s.sign(send, x), s.sign(act, x))
		}
	})
	for _, tx := range txs {
		any := false
		for _, n := range nodes {
			if s.Submit(n, tx) == nil {
				any = true
			}
		}
		if any {
			s.NoteAccepted(tx)
			s.R.Probe("seeded_drained_activation_tx")
		}
	}
}
